import DL.Lemmas.RxMutual

/-! # `count_capturing_parens`, `consume_pattern`, `validate_pattern` -/
namespace DL.Rx
attribute [local irreducible] isScalar

theorem OK.countCapturingParensLoop : ∀ n inClass escaped count, OK (countCapturingParensLoop n inClass escaped count)
  | 0, _, _, _ => Keeps.outOfFuel
  | n + 1, inClass, escaped, count => by
    have ih := OK.countCapturingParensLoop n
    unfold DL.Rx.countCapturingParensLoop; rx_auto
    all_goals exact ih _ _ _

theorem OK.countCapturingParens (fuel : Nat) : OK (countCapturingParens fuel) := by
  have := OK.countCapturingParensLoop fuel false false 0
  unfold DL.Rx.countCapturingParens; rx_auto
macro_rules | `(tactic| rx_known) => `(tactic| exact OK.countCapturingParens _)

theorem OK.consumePattern (fuel : Nat) : OK (consumePattern fuel) := by
  unfold DL.Rx.consumePattern; rx_auto
macro_rules | `(tactic| rx_known) => `(tactic| exact OK.consumePattern _)

/-- `validate_pattern` from ANY state: `reset` establishes the reader invariant (`end` is the length of the very unit
list the reader indexes), everything after it preserves it -/
theorem validatePattern_safe (fuel : Nat) (source : List Nat) (uFlag : Bool) :
    Safe (fun _ => True) (validatePattern fuel source uFlag) (fun _ => Inv) := by
  unfold validatePattern
  refine Safe.bind (R := fun _ _ => True) (Safe.modSt fun _ _ => trivial) fun _ => ?_
  refine Safe.bind (R := fun _ => Inv) (reset_establishes source 0 _ uFlag ?_) fun _ => ?_
  · cases uFlag
    · exact Nat.le_refl _
    · exact Nat.le_refl _
  rx_auto

end DL.Rx
