import DL.Lemmas.RxBCompRec3

/-! # Annex B (no `u` flag), completeness: the assertions -/
namespace DL.Rx
open DL.RxSpec DL.Gen.Unicode

attribute [local irreducible] isScalar
variable {src : List Nat} {K : Bool × Nat}

/-- the two lookbehind assertions -/
macro "lookbehindB_proof" : tactic => `(tactic| (
  intro n s hat hnd
  cases n with
  | zero => exact Wc.outOfFuel
  | succ n =>
    unfold consumeAssertion
    rx7_autos
    exact ⟨rfl, by rx6_at, by rx5_track⟩))

/-- the two lookahead assertions -/
macro "lookaheadB_proof" : tactic => `(tactic| (
  intro n s hat hnd
  cases n with
  | zero => exact Wc.outOfFuel
  | succ n =>
    unfold consumeAssertion
    rx7_autos
    refine ⟨rfl, by rx6_at, by rx5_track, ?_⟩
    rename_i hlast
    show (!false && !(_ : St).strict) = true
    rw [BAt.strict' hlast]; rfl))

theorem lookahead_wd {m r : List Nat} {a : Attr}
    (hdj' : ∀ n s, BAt src K m s → ND s.groupNames a →
      Wc (consumeDisjunction n s) (fun _ s1 => BAt src K (ch ')' :: r) s1 ∧ TrackC s s1 a)) :
    PQAB src K (ch '(' :: ch '?' :: ch '=' :: m) r a := by
  lookaheadB_proof

theorem negativeLookahead_wd {m r : List Nat} {a : Attr}
    (hdj' : ∀ n s, BAt src K m s → ND s.groupNames a →
      Wc (consumeDisjunction n s) (fun _ s1 => BAt src K (ch ')' :: r) s1 ∧ TrackC s s1 a)) :
    PQAB src K (ch '(' :: ch '?' :: ch '!' :: m) r a := by
  lookaheadB_proof

theorem lookbehind_wd {m r : List Nat} {a : Attr}
    (hdj' : ∀ n s, BAt src K m s → ND s.groupNames a →
      Wc (consumeDisjunction n s) (fun _ s1 => BAt src K (ch ')' :: r) s1 ∧ TrackC s s1 a)) :
    PAB src K (ch '(' :: ch '?' :: ch '<' :: ch '=' :: m) r a := by
  lookbehindB_proof

theorem negativeLookbehind_wd {m r : List Nat} {a : Attr}
    (hdj' : ∀ n s, BAt src K m s → ND s.groupNames a →
      Wc (consumeDisjunction n s) (fun _ s1 => BAt src K (ch ')' :: r) s1 ∧ TrackC s s1 a)) :
    PAB src K (ch '(' :: ch '?' :: ch '<' :: ch '!' :: m) r a := by
  lookbehindB_proof

/-- the assertions without a body -/
macro "simple_assertionB_proof" : tactic => `(tactic| (
  intro n s hat hnd
  cases n with
  | zero => exact Wc.outOfFuel
  | succ n =>
    unfold consumeAssertion
    rx7_autos
    exact ⟨rfl, by rx6_at, TrackC.ofKeepN ⟨rfl, rfl⟩⟩))

theorem caret_wd {r : List Nat} : PAB src K (ch '^' :: r) r Attr.nil := by simple_assertionB_proof
theorem dollar_wd {r : List Nat} : PAB src K (ch '$' :: r) r Attr.nil := by simple_assertionB_proof
theorem wordBoundary_wd {r : List Nat} : PAB src K (ch '\\' :: ch 'b' :: r) r Attr.nil := by simple_assertionB_proof
theorem notWordBoundary_wd {r : List Nat} : PAB src K (ch '\\' :: ch 'B' :: r) r Attr.nil := by simple_assertionB_proof

theorem PQAB.toPAB {i r : List Nat} {a : Attr} (h : PQAB src K i r a) : PAB src K i r a :=
  fun n s hat hnd => (h n s hat hnd).mono (fun _ _ hp => ⟨hp.1, hp.2.1, hp.2.2.1⟩)

def MotiveB (src : List Nat) (K : Bool × Nat) : RxSpecB.Sym → List Nat → List Nat → Attr → Prop
  | .Disjunction => PDB src K
  | .Alternative => TermsPB K (PTB src K)
  | .Term => PTB src K
  | .Assertion => PAB src K
  | .QuantifiableAssertion => PQAB src K
  | .ExtendedAtom => PAtB src K

end DL.Rx
