import DL.Lemmas.RxCompName
import DL.Lemmas.RxSpecAtomEsc

/-! # Completeness: `RegExpIdentifierName`, `GroupName` (u-mode) -/
namespace DL.Rx
open DL.RxSpec DL.Gen.Unicode

attribute [local irreducible] isScalar
variable {src : List Nat} {N : Nat}

theorem PartsRun.snoc {m r r' : List Nat} {xs : List Nat} {y : Nat} (h : PartsRun m r xs) (hp : RegExpIdentifierPart r r' y) :
    PartsRun m r' (xs ++ [y]) := by
  induction h with
  | nil r => exact PartsRun.cons _ _ _ _ _ hp (PartsRun.nil _)
  | cons r0 m0 r1 x xs hp0 _ ih => exact PartsRun.cons _ _ _ _ _ hp0 (ih hp)

theorem name_split {i r : List Nat} {nm : List Nat} (h : RegExpIdentifierName i r nm) :
    ∃ m x xs, RegExpIdentifierStart i m x ∧ PartsRun m r xs ∧ nm = x :: xs := by
  induction h with
  | start _ _ hs => exact ⟨_, _, [], hs, PartsRun.nil _, rfl⟩
  | part _ _ _ _ _ hp ih =>
    obtain ⟨m0, x0, xs, hs, hrun, rfl⟩ := ih
    exact ⟨m0, x0, xs ++ [_], hs, hrun.snoc hp, rfl⟩

theorem eatRegexpIdentifierNameLoop_wc (r1 : List Nat) : ∀ (n : Nat) (r : List Nat) (xs : List Nat) (s : St),
    UAt src N r s → PartsRun r (ch '>' :: r1) xs →
    Wc (eatRegexpIdentifierNameLoop n s) (fun _ s1 => UAt src N (ch '>' :: r1) s1 ∧
      s1.lastStrValue = s.lastStrValue ++ xs ∧ KeepN s s1)
  | 0, _, _, _, _, _ => Wc.outOfFuel
  | n + 1, r, xs, s, h, hrun => by
    have ih := eatRegexpIdentifierNameLoop_wc r1 n
    cases hrun with
    | nil =>
      unfold eatRegexpIdentifierNameLoop
      rx5_auto
      have hk := ‹Keep s _›
      exact ⟨‹UAt src N (ch '>' :: r1) _›, by rw [hk.str, List.append_nil], hk.toN⟩
    | cons _ m _ x xs' hp hrest =>
      unfold eatRegexpIdentifierNameLoop
      rx5_auto
      rename_i s1 _ _ hv hk y hy _ s2 hat2 hstr hk2
      have hpc := identifierPartChar_char (part_value hp)
      rw [hv, i64AsU32_small hpc.2, hpc.1] at hy
      cases hy
      refine ⟨hat2, ?_, ⟨hk2.gn.trans hk.gn, hk2.bn.trans hk.bn⟩⟩
      rw [hstr]
      show (s1.lastStrValue ++ [x]) ++ xs' = _
      rw [hk.str, List.append_assoc]; rfl

theorem eatRegexpIdentifierName_wc (n : Nat) (r r1 : List Nat) (nm : List Nat) (s : St) (h : UAt src N r s)
    (hD : RegExpIdentifierName r (ch '>' :: r1) nm) :
    Wc (eatRegexpIdentifierName n s) (fun b s1 => b = true ∧ UAt src N (ch '>' :: r1) s1 ∧ s1.lastStrValue = nm ∧
      KeepN s s1) := by
  obtain ⟨m, x, xs, hstart, hrun, rfl⟩ := name_split hD
  have hloop := fun s (h : UAt src N m s) => eatRegexpIdentifierNameLoop_wc (src := src) (N := N) r1 n m xs s h hrun
  unfold eatRegexpIdentifierName
  rx5_auto
  rename_i s1 _ _ hv hk y hy _ s2 hat2 hstr hk2
  have hpc := identifierPartChar_char (identifierStartChar_part (start_value hstart))
  rw [hv, i64AsU32_small hpc.2, hpc.1] at hy
  cases hy
  exact ⟨rfl, hat2, hstr, ⟨hk2.gn.trans hk.gn, hk2.bn.trans hk.bn⟩⟩

theorem eatGroupName_wc (n : Nat) (r r1 : List Nat) (nm : List Nat) (s : St) (h : UAt src N r s)
    (hD : GroupName r r1 nm) :
    Wc (eatGroupName n s) (fun b s1 => b = true ∧ UAt src N r1 s1 ∧ s1.lastStrValue = nm ∧ KeepN s s1) := by
  obtain ⟨m, rfl, hname⟩ := hD
  unfold eatGroupName
  rx5_auto
  rx5_fin

theorem eatGroupName_wcn (n : Nat) (r : List Nat) (s : St) (h : UAt src N r s) (hn : r.head? ≠ some (ch '<')) :
    Wc (eatGroupName n s) (fun b s1 => b = false ∧ s1 = s) := by
  unfold eatGroupName
  rx5_auto
  exact ⟨rfl, rfl⟩

end DL.Rx
