import DL.Lemmas.RxBTop
import DL.Lemmas.RxSpecScanG

/-! # Annex B (no `u` flag): the scan of `count_capturing_parens` counts the capturing groups of a derivation -/
namespace DL.Rx
open DL.RxSpec DL.Gen.Unicode

theorem octalDigit_neutral {x : Nat} (h : RxSpecB.OctalDigit x) : NeutralC x := by
  have h' : 0x30 ≤ x ∧ x ≤ 0x37 := h
  unfold NeutralC; omega

theorem legacyOctal_SE {i r : List Nat} {v : Nat} (h : RxSpecB.LegacyOctalEscapeSequence i r v) : SE i r := by
  cases h with
  | zero89 r _ => exact SE.cons _ _
  | one a r _ _ => exact SE.cons _ _
  | two03 a b r _ hb _ => exact (SE.cons _ _).trans (SN.cons (octalDigit_neutral hb) _)
  | two47 a b r _ hb => exact (SE.cons _ _).trans (SN.cons (octalDigit_neutral hb) _)
  | three a b d r _ hb hd =>
    exact (SE.cons _ _).trans ((SN.cons (octalDigit_neutral hb) _).trans (SN.cons (octalDigit_neutral hd) _))

theorem characterEscapeB_SE {nf : Bool} {i r : List Nat} {v : Nat} (h : RxSpecB.CharacterEscape nf i r v) : SE i r := by
  cases h with
  | f r => exact SE.cons _ _
  | n r => exact SE.cons _ _
  | r r => exact SE.cons _ _
  | t r => exact SE.cons _ _
  | v r => exact SE.cons _ _
  | controlLetter l r hl => exact (SE.cons _ _).trans (SN.cons (controlLetter_neutral hl) _)
  | zero r _ => exact SE.cons _ _
  | hex a b r ha hb =>
    exact (SE.cons _ _).trans ((SN.cons (hexDigit_neutral ha) _).trans (SN.cons (hexDigit_neutral hb) _))
  | unicode m r v h => exact (SE.cons _ _).trans (hex4_SN h)
  | legacyOctal _ _ _ h => exact legacyOctal_SE h
  | identity x r _ _ _ _ => exact SE.cons _ _

theorem characterClassEscapeB_SE {i r : List Nat} (h : RxSpecB.CharacterClassEscape i r) : SE i r := by
  obtain ⟨x, rfl, _⟩ := h
  exact SE.cons _ _

theorem surrogatePair_SN {i r : List Nat} {v : Nat} (h : RxSpecB.SurrogatePair i r v) : SN i r := by
  obtain ⟨l, t, rfl, hl, ht, _⟩ := h
  unfold isLead at hl; unfold isTrail at ht
  exact (SN.cons (by unfold NeutralC; omega) _).trans (SN.cons (by unfold NeutralC; omega) _)

theorem idStartB_SN {i r : List Nat} {x : Nat} (h : RxSpecB.RegExpIdentifierStart i r x) : SN i r := by
  cases h with
  | char x r hx => exact SN.cons (identifierStartChar_neutral hx) _
  | escape m r v hu _ => exact SN.backslash (rues_SE hu)
  | pair _ _ _ hp _ => exact surrogatePair_SN hp

theorem idPartB_SN {i r : List Nat} {x : Nat} (h : RxSpecB.RegExpIdentifierPart i r x) : SN i r := by
  cases h with
  | char x r hx => exact SN.cons (identifierPartChar_neutral hx) _
  | escape m r v hu _ => exact SN.backslash (rues_SE hu)
  | pair _ _ _ hp _ => exact surrogatePair_SN hp

theorem idNameB_SN {i r : List Nat} {n : Name} (h : RxSpecB.RegExpIdentifierName i r n) : SN i r := by
  induction h
  · rename_i h; exact idStartB_SN h
  · rename_i hp ih; exact ih.trans (idPartB_SN hp)

theorem groupNameB_SN {i r : List Nat} {n : Name} (h : RxSpecB.GroupName i r n) : SN i r := by
  obtain ⟨m, rfl, hn⟩ := h
  exact (SN.cons (by unfold NeutralC; decide) _).trans ((idNameB_SN hn).trans (SN.cons (by unfold NeutralC; decide) _))

theorem atomEscapeB_SE {nf : Bool} {N : Nat} {i r : List Nat} {a : Attr} (h : RxSpecB.AtomEscape nf N i r a) :
    SE i r ∧ a.groups = [] := by
  cases h with
  | decimal _ _ v h _ => exact ⟨decimalEscape_SE h, rfl⟩
  | characterClass _ _ h => exact ⟨characterClassEscapeB_SE h, rfl⟩
  | character _ _ v h _ _ => exact ⟨characterEscapeB_SE h, rfl⟩
  | named m r n _ h => exact ⟨(SE.cons _ _).trans (groupNameB_SN h), rfl⟩

theorem classEscapeB_SE {nf : Bool} {i r : List Nat} {v : Option Nat} (h : RxSpecB.ClassEscape nf i r v) : SE i r := by
  cases h with
  | b r => exact SE.cons _ _
  | classControl l r hl =>
    refine (SE.cons _ _).trans (SN.cons ?_ _)
    rcases hl with hl | hl
    · exact decimalDigit_neutral hl
    · have : l = 0x5f := hl
      unfold NeutralC; omega
  | characterClass _ _ h => exact characterClassEscapeB_SE h
  | character _ _ v h _ _ => exact characterEscapeB_SE h

theorem classAtomNoDashB_SC {nf : Bool} {i r : List Nat} {v : Option Nat} (h : RxSpecB.ClassAtomNoDash nf i r v) :
    SC i r := by
  cases h with
  | char x r _ h1 h2 _ => exact fun k => scan_inClass h1 h2 r k
  | escape m r v h => exact fun k => (SN.backslash (classEscapeB_SE h)) true k
  | backslashC r _ =>
    intro k
    have e1 : scan (c '\\' :: c 'c' :: r) true false k = scan r true false k :=
      (SN.backslash (SE.cons _ _)) true k
    have e2 : scan (c 'c' :: r) true false k = scan r true false k := scan_inClass (by decide) (by decide) r k
    rw [e1, e2]

theorem classAtomB_SC {nf : Bool} {i r : List Nat} {v : Option Nat} (h : RxSpecB.ClassAtom nf i r v) : SC i r := by
  cases h with
  | dash r => exact fun k => scan_inClass (by decide) (by decide) r k
  | noDash _ _ v h => exact classAtomNoDashB_SC h

theorem crB_SC {nf : Bool} {sym : CRSym} {i r : List Nat} (h : RxSpecB.CR nf sym i r) : SC i r := by
  induction h with
  | empty r => exact fun _ => rfl
  | nonempty i r _ ih => exact ih
  | atom i r v h => exact classAtomB_SC h
  | atomMore i m r v h _ ih => exact (classAtomB_SC h).trans ih
  | range i m₁ m₂ r a b ha hb _ _ ih => exact ((classAtomB_SC ha).trans ((dash_SC _).trans (classAtomB_SC hb))).trans ih
  | ndAtom i r v h => exact classAtomB_SC h
  | ndAtomMore i m r v h _ ih => exact (classAtomNoDashB_SC h).trans ih
  | ndRange i m₁ m₂ r a b ha hb _ _ ih =>
    exact ((classAtomNoDashB_SC ha).trans ((dash_SC _).trans (classAtomB_SC hb))).trans ih

theorem characterClassB_SO {nf : Bool} {i r : List Nat} (h : RxSpecB.CharacterClass nf i r) : SO i r := by
  cases h with
  | pos m r _ hcr =>
    intro k
    have h1 : scan (c '[' :: m) false false k = scan m true false k := scan_open m k
    have h2 : scan (c ']' :: r) true false k = scan r false false k := scan_close r k
    rw [h1, crB_SC hcr k, h2]
  | neg m r hcr =>
    intro k
    have h1 : scan (c '[' :: c '^' :: m) false false k = scan m true false k :=
      (scan_open _ k).trans (scan_inClass (x := 0x5E) (by decide) (by decide) m k)
    have h2 : scan (c ']' :: r) true false k = scan r false false k := scan_close r k
    rw [h1, crB_SC hcr k, h2]

def isTAAB : RxSpecB.Sym → Bool
  | .Term | .Assertion | .QuantifiableAssertion | .ExtendedAtom => true
  | _ => false

/-- no phrase starts with `?` -/
theorem derives_headB {nf : Bool} {qok : Nat → Nat → Prop} {N : Nat} {sym : RxSpecB.Sym} {i r : List Nat} {a : Attr}
    (h : RxSpecB.Derives nf qok N sym i r a) : (r.head? ≠ some (c '?') ∨ isTAAB sym = true) → i.head? ≠ some (c '?') := by
  induction h with
  | disjOne i r a _ ih => exact fun h => ih (h.imp id (fun h => by cases h))
  | disjMore i m r a₁ a₂ _ _ ih1 _ => exact fun _ => ih1 (.inl (head_cons_ne (by decide) _))
  | altEmpty r => exact fun h => h.elim id (fun h => by cases h)
  | altSnoc i m r a₁ a₂ _ _ ih1 ih2 => exact fun _ => ih1 (.inl (ih2 (.inr rfl)))
  | termQAssertionQuantified i m r a _ _ ih => exact fun _ => ih (.inr rfl)
  | termAssertion i r a _ ih => exact fun _ => ih (.inr rfl)
  | termAtomQuantified i m r a _ _ _ ih => exact fun _ => ih (.inr rfl)
  | termAtom i r a _ _ ih => exact fun _ => ih (.inr rfl)
  | caret r => exact fun _ => head_cons_ne (by decide) _
  | dollar r => exact fun _ => head_cons_ne (by decide) _
  | wordBoundary r => exact fun _ => head_cons_ne (by decide) _
  | notWordBoundary r => exact fun _ => head_cons_ne (by decide) _
  | quantifiable i r a _ ih => exact fun _ => ih (.inr rfl)
  | lookahead i m r a hl _ _ => exact fun _ => by rw [lit_head hl]; decide
  | negativeLookahead i m r a hl _ _ => exact fun _ => by rw [lit_head hl]; decide
  | lookbehind i m r a hl _ _ => exact fun _ => by rw [lit_head hl]; decide
  | negativeLookbehind i m r a hl _ _ => exact fun _ => by rw [lit_head hl]; decide
  | dot r => exact fun _ => head_cons_ne (by decide) _
  | atomEscape m r a _ => exact fun _ => head_cons_ne (by decide) _
  | backslashC r _ => exact fun _ => head_cons_ne (by decide) _
  | characterClass i r hc =>
    intro _
    cases hc <;> exact head_cons_ne (by decide) _
  | group m₁ m₂ r name a _ _ _ => exact fun _ => head_cons_ne (by decide) _
  | nonCapturing i m r a hl _ _ => exact fun _ => by rw [lit_head hl]; decide
  | extendedPatternCharacter x r hx _ =>
    intro _ he
    have : x = c '?' := by simpa using he
    subst this
    exact hx.2 (by decide)

theorem idName_headB {i r : List Nat} {n : Name} (h : RxSpecB.RegExpIdentifierName i r n) :
    i.head? ≠ some (ch '=') ∧ i.head? ≠ some (ch '!') := by
  induction h with
  | start _ _ hs =>
    cases hs with
    | char x _ hx => exact ⟨head_cons_ne (idStart_ne hx).1 _, head_cons_ne (idStart_ne hx).2 _⟩
    | escape m _ _ _ _ => exact ⟨head_cons_ne (by decide) _, head_cons_ne (by decide) _⟩
    | pair _ _ _ hp _ =>
      obtain ⟨l, t, rfl, hl, _, _⟩ := hp
      unfold isLead at hl
      exact ⟨head_cons_ne (by intro e; rw [e] at hl; revert hl; decide) _,
        head_cons_ne (by intro e; rw [e] at hl; revert hl; decide) _⟩
  | part _ _ _ _ _ _ ih => exact ih

theorem extendedPatternCharacter_neutral {x : Nat} (h : RxSpecB.ExtendedPatternCharacter x) : NeutralC x ∨ x = 0x5D := by
  have hx := h.2
  simp only [List.mem_cons, List.not_mem_nil, or_false, not_or] at hx
  by_cases h5 : x = 0x5D
  · exact .inr h5
  · exact .inl ⟨hx.2.2.1, hx.2.2.2.2.2.2.2.2.2.1, h5, hx.2.2.2.2.2.2.2.1⟩

theorem scan_rbracket_out (r : List Nat) (k : Nat) : scan (0x5D :: r) false false k = scan r false false k := by
  simp [scan, ch_vals.1, ch_vals.2.1, ch_vals.2.2.1]

theorem derives_scanB {nf : Bool} {qok : Nat → Nat → Prop} {N : Nat} {sym : RxSpecB.Sym} {i r : List Nat} {a : Attr}
    (h : RxSpecB.Derives nf qok N sym i r a) : ∀ k, scan i false false k = scan r false false (k + a.groups.length) := by
  induction h with
  | disjOne i r a _ ih => exact ih
  | disjMore i m r a₁ a₂ _ _ ih1 ih2 =>
    intro k
    rw [ih1 k, scan_neutral (neutral_of_ne (by decide)), ih2, Attr.append_groups, List.length_append, Nat.add_assoc]
  | altEmpty r => exact fun k => rfl
  | altSnoc i m r a₁ a₂ _ _ ih1 ih2 =>
    intro k
    rw [ih1 k, ih2, Attr.append_groups, List.length_append, Nat.add_assoc]
  | termQAssertionQuantified i m r a _ hq ih =>
    intro k
    rw [ih k, quantifier_SN hq false]
  | termAssertion i r a _ ih => exact ih
  | termAtomQuantified i m r a _ hq _ ih =>
    intro k
    rw [ih k, quantifier_SN hq false]
  | termAtom i r a _ _ ih => exact ih
  | quantifiable i r a _ ih => exact ih
  | caret r => exact fun k => scan_neutral (neutral_of_ne (by decide)) r false k
  | dollar r => exact fun k => scan_neutral (neutral_of_ne (by decide)) r false k
  | wordBoundary r => exact fun k => (SN.backslash (SE.cons _ _)) false k
  | notWordBoundary r => exact fun k => (SN.backslash (SE.cons _ _)) false k
  | lookahead i m r a hl _ ih =>
    intro k
    unfold lit at hl; subst hl
    show scan (0x28 :: 0x3F :: 0x3D :: m) false false k = _
    rw [scan_paren_skip k (by rw [ch_vals.2.2.2.2.1, ch_vals.2.2.2.2.2.1]; rfl),
      scan_neutral (neutral_of_ne (by decide)), scan_neutral (neutral_of_ne (by decide)), ih,
      scan_neutral (neutral_of_ne (by decide))]
  | negativeLookahead i m r a hl _ ih =>
    intro k
    unfold lit at hl; subst hl
    show scan (0x28 :: 0x3F :: 0x21 :: m) false false k = _
    rw [scan_paren_skip k (by rw [ch_vals.2.2.2.2.1, ch_vals.2.2.2.2.2.1]; rfl),
      scan_neutral (neutral_of_ne (by decide)), scan_neutral (neutral_of_ne (by decide)), ih,
      scan_neutral (neutral_of_ne (by decide))]
  | lookbehind i m r a hl _ ih =>
    intro k
    unfold lit at hl; subst hl
    show scan (0x28 :: 0x3F :: 0x3C :: 0x3D :: m) false false k = _
    rw [scan_paren_skip k (by rw [ch_vals.2.2.2.2.1, ch_vals.2.2.2.2.2.1, ch_vals.2.2.2.2.2.2.1]; rfl),
      scan_neutral (neutral_of_ne (by decide)), scan_neutral (neutral_of_ne (by decide)),
      scan_neutral (neutral_of_ne (by decide)), ih, scan_neutral (neutral_of_ne (by decide))]
  | negativeLookbehind i m r a hl _ ih =>
    intro k
    unfold lit at hl; subst hl
    show scan (0x28 :: 0x3F :: 0x3C :: 0x21 :: m) false false k = _
    rw [scan_paren_skip k (by rw [ch_vals.2.2.2.2.1, ch_vals.2.2.2.2.2.1, ch_vals.2.2.2.2.2.2.1, ch_vals.2.2.2.2.2.2.2]; rfl),
      scan_neutral (neutral_of_ne (by decide)), scan_neutral (neutral_of_ne (by decide)),
      scan_neutral (neutral_of_ne (by decide)), ih, scan_neutral (neutral_of_ne (by decide))]
  | extendedPatternCharacter x r hx _ =>
    intro k
    rcases extendedPatternCharacter_neutral hx with hn | hn
    · exact scan_neutral hn r false k
    · subst hn; exact scan_rbracket_out r k
  | backslashC r _ =>
    intro k
    have e1 : scan (c '\\' :: c 'c' :: r) false false k = scan r false false k :=
      (SN.backslash (SE.cons _ _)) false k
    have e2 : scan (c 'c' :: r) false false k = scan r false false k := scan_neutral (neutral_of_ne (by decide)) r false k
    show _ = scan (c 'c' :: r) false false (k + 0)
    rw [e1, Nat.add_zero, e2]
  | dot r => exact fun k => scan_neutral (neutral_of_ne (by decide)) r false k
  | atomEscape m r a hae =>
    intro k
    have := atomEscapeB_SE hae
    rw [this.2, (SN.backslash this.1) false k]; rfl
  | characterClass i r hc => exact fun k => characterClassB_SO hc k
  | group m₁ m₂ r name a hgs hd ih =>
    intro k
    have hcount : ([name] ++ a.groups).length = 1 + a.groups.length := by simp; omega
    show scan (0x28 :: m₁) false false k = scan r false false (k + ([name] ++ a.groups).length)
    rw [hcount]
    cases hgs with
    | empty _ =>
      have hh := derives_headB hd (.inl (head_cons_ne (by decide) _))
      rw [scan_paren_count k (by
        have : m₁[0]? ≠ some (ch '?') := by rw [← List.head?_eq_getElem?]; exact hh
        simp [this]), ih, scan_neutral (neutral_of_ne (by decide))]
      congr 1; omega
    | named m _ n hgn =>
      obtain ⟨m', rfl, hn⟩ := hgn
      have hh := idName_headB hn
      rw [scan_paren_count k (by
        have h1 : m'[0]? ≠ some (ch '=') := by rw [← List.head?_eq_getElem?]; exact hh.1
        have h2 : m'[0]? ≠ some (ch '!') := by rw [← List.head?_eq_getElem?]; exact hh.2
        show ((c '?' :: c '<' :: m')[0]? != some (ch '?') ||
          ((c '?' :: c '<' :: m')[1]? == some (ch '<') && (c '?' :: c '<' :: m')[2]? != some (ch '=') &&
            (c '?' :: c '<' :: m')[2]? != some (ch '!'))) = true
        show (_ || (_ && m'[0]? != some (ch '=') && m'[0]? != some (ch '!'))) = true
        simp [h1, h2]),
        scan_neutral (neutral_of_ne (by decide)), scan_neutral (neutral_of_ne (by decide)), (idNameB_SN hn) false,
        scan_neutral (neutral_of_ne (by decide)), ih, scan_neutral (neutral_of_ne (by decide))]
      congr 1; omega
  | nonCapturing i m r a hl _ ih =>
    intro k
    unfold lit at hl; subst hl
    show scan (0x28 :: 0x3F :: 0x3A :: m) false false k = _
    rw [scan_paren_skip k (by rw [ch_vals.2.2.2.2.1, ch_vals.2.2.2.2.2.1]; rfl),
      scan_neutral (neutral_of_ne (by decide)), scan_neutral (neutral_of_ne (by decide)), ih,
      scan_neutral (neutral_of_ne (by decide))]


end DL.Rx
