import DL.Lemmas.Imp
/-!
# Helper lemmas for the import-fix model: the positions `wheres` computes, and a Boolean check of `WF`
-/
namespace DL.Imp

/-! ## unfolding -/

theorem wheresItems_nil (f : File) (first i : Nat) (r : Recent) : wheresItems f first i r [] = ([], r) := rfl

theorem wheresItems_ref (f : File) (first i : Nat) (r : Recent) (n : Name) (is : List Item) :
    wheresItems f first i r (.ref n :: is) =
      (whereOf f first r :: (wheresItems f first i r is).1, (wheresItems f first i r is).2) := rfl

theorem wheresItems_imp (f : File) (first i : Nat) (r : Recent) (e : Bool) (is : List Item) :
    wheresItems f first i r (.imp e :: is) = wheresItems f first i (some (i, e)) is := rfl

theorem wheresFrom_nil (f : File) (first i : Nat) (r : Recent) : wheresFrom f first i r [] = [] := rfl

theorem wheresFrom_cons (f : File) (first i : Nat) (r : Recent) (l : Line) (ls : File) :
    wheresFrom f first i r (l :: ls) =
      (wheresItems f first i r l.items).1 ++ wheresFrom f first (i + 1) (wheresItems f first i r l.items).2 ls := rfl

/-! ## length -/

theorem wheresItems_length (f : File) (first i : Nat) (r : Recent) (is : List Item) :
    (wheresItems f first i r is).1.length = (is.filterMap Item.refName?).length := by
  induction is generalizing r with
  | nil => rfl
  | cons a as ih =>
    cases a with
    | ref n =>
      rw [wheresItems_ref]
      simp only [List.length_cons, ih r, List.filterMap_cons, Item.refName?]
    | imp e =>
      rw [wheresItems_imp, ih]
      simp only [List.filterMap_cons, Item.refName?]

theorem wheresFrom_length (f : File) (first i : Nat) (r : Recent) (ls : File) :
    (wheresFrom f first i r ls).length = (rawFrom i ls).length := by
  induction ls generalizing i r with
  | nil => rfl
  | cons a as ih =>
    rw [wheresFrom_cons, rawFrom_cons, List.length_append, List.length_append, ih, wheresItems_length,
      List.length_map]
    rfl

/-! ## safety -/

/-- the invariant of the traversal state: an import that ends its line stands on a line of the file that starts no
directive naming the rule -/
def GoodR (f : File) (r : Recent) : Prop := ∀ l, r = some (l, true) → l < f.length ∧ dirAt f l = false

theorem GoodR_none (f : File) : GoodR f none := by
  intro l h; cases h

theorem dirAt_false_of_anyDirAt {f : File} {first : Nat} (hwf : WF f first) {j : Nat} (h : anyDirAt f j = false) :
    dirAt f j = false := by
  unfold dirAt
  unfold anyDirAt at h
  cases hj : f[j]? with
  | none => rfl
  | some l =>
    rw [hj] at h
    simp only at h ⊢
    cases hd : l.dir with
    | false => rfl
    | true =>
      have := hwf.dir_any l (List.mem_of_getElem? hj) hd
      rw [this] at h; cases h

theorem codeStart_safe {f : File} {first : Nat} (hwf : WF f first) (hfirst : first ≤ f.length) :
    Safe f (.newLineAt (codeStart f first)) := by
  unfold codeStart
  by_cases hc : (decide (first > 0) && anyDirAt f (first - 1)) = true
  · rw [if_pos hc]
    refine ⟨by omega, ?_⟩
    rintro ⟨_, _, l, hl, hr⟩
    have hpos : first > 0 := by
      simp only [Bool.and_eq_true, decide_eq_true_eq] at hc
      exact hc.1
    have := hwf.before_first (first - 1) l hl (by omega)
    apply hr
    simp only [Line.refs, this, List.filterMap_nil]
  · rw [if_neg hc]
    refine ⟨hfirst, ?_⟩
    rintro ⟨hpos, hd, _⟩
    have ha : anyDirAt f (first - 1) = false := by
      cases h : anyDirAt f (first - 1) with
      | false => rfl
      | true =>
        exfalso; apply hc
        simp only [Bool.and_eq_true, decide_eq_true_eq]
        exact ⟨hpos, h⟩
    rw [dirAt_false_of_anyDirAt hwf ha] at hd
    cases hd

theorem whereOf_safe {f : File} {first : Nat} (hwf : WF f first) (hfirst : first ≤ f.length) {r : Recent}
    (hr : GoodR f r) : Safe f (whereOf f first r) := by
  match r, hr with
  | none, _ => exact codeStart_safe hwf hfirst
  | some (_, false), _ => trivial
  | some (l, true), hr =>
    obtain ⟨h1, h2⟩ := hr l rfl
    refine ⟨by omega, ?_⟩
    rintro ⟨_, hd, _⟩
    have : l + 1 - 1 = l := by omega
    rw [this, h2] at hd
    cases hd

theorem wheresItems_safe {f : File} {first : Nat} (hwf : WF f first) (i : Nat) (hi : i < f.length)
    (r : Recent) (is : List Item) (hne : is ≠ [] → first ≤ i) (himp : Item.imp true ∈ is → dirAt f i = false)
    (hr : GoodR f r) :
    (∀ w ∈ (wheresItems f first i r is).1, Safe f w) ∧ GoodR f (wheresItems f first i r is).2 := by
  induction is generalizing r with
  | nil => exact ⟨(fun w hw => by cases hw), hr⟩
  | cons a as ih =>
    have hfirst : first ≤ f.length := by
      have := hne (by simp)
      omega
    have hne' : as ≠ [] → first ≤ i := fun _ => hne (by simp)
    have himp' : Item.imp true ∈ as → dirAt f i = false := fun h => himp (List.mem_cons_of_mem _ h)
    cases a with
    | ref n =>
      rw [wheresItems_ref]
      obtain ⟨h1, h2⟩ := ih r hne' himp' hr
      refine ⟨?_, h2⟩
      intro w hw
      rw [List.mem_cons] at hw
      cases hw with
      | inl h => rw [h]; exact whereOf_safe hwf hfirst hr
      | inr h => exact h1 w h
    | imp e =>
      rw [wheresItems_imp]
      apply ih _ hne' himp'
      intro l hl
      simp only [Option.some.injEq, Prod.mk.injEq] at hl
      obtain ⟨rfl, rfl⟩ := hl
      exact ⟨hi, himp (List.mem_cons_self)⟩

theorem wheresFrom_safe {f : File} {first : Nat} (hwf : WF f first) (i : Nat) (r : Recent) (ls : File)
    (hsuf : ∀ j l, ls[j]? = some l → f[i + j]? = some l) (hr : GoodR f r) :
    ∀ w ∈ wheresFrom f first i r ls, Safe f w := by
  induction ls generalizing i r with
  | nil => intro w hw; cases hw
  | cons a as ih =>
    have ha : f[i]? = some a := hsuf 0 a rfl
    have hi : i < f.length := by
      have := List.getElem?_eq_some_iff.mp ha
      exact this.1
    have hmem : a ∈ f := List.mem_of_getElem? ha
    have hne : a.items ≠ [] → first ≤ i := by
      intro h
      apply Nat.le_of_not_lt
      intro hlt
      exact h (hwf.before_first i a ha hlt)
    have himp : Item.imp true ∈ a.items → dirAt f i = false := by
      intro h
      have h1 : a.hasImpEndingLine = true := by
        unfold Line.hasImpEndingLine
        rw [List.any_eq_true]
        exact ⟨_, h, by simp⟩
      have h2 := hwf.imp_no_dir a hmem h1
      apply dirAt_false_of_anyDirAt hwf
      unfold anyDirAt
      rw [ha]
      exact h2
    obtain ⟨h1, h2⟩ := wheresItems_safe hwf i hi r a.items hne himp hr
    rw [wheresFrom_cons]
    intro w hw
    rw [List.mem_append] at hw
    cases hw with
    | inl h => exact h1 w h
    | inr h =>
      refine ih (i + 1) _ ?_ h2 w h
      intro j l hj
      have := hsuf (j + 1) l (by simpa using hj)
      have e : i + 1 + j = i + (j + 1) := by omega
      rw [e]; exact this

/-! ## a Boolean check of `WF` (for concrete files) -/

def wfB (f : File) (first : Nat) : Bool :=
  f.all (fun l => !l.dir || l.anyDir) &&
  (f.take first).all (fun l => l.items.isEmpty) &&
  f.all (fun l => !l.hasImpEndingLine || !l.anyDir)

theorem WF_of_wfB {f : File} {first : Nat} (h : wfB f first = true) : WF f first := by
  unfold wfB at h
  simp only [Bool.and_eq_true, List.all_eq_true, Bool.or_eq_true, Bool.not_eq_true'] at h
  obtain ⟨⟨h1, h2⟩, h3⟩ := h
  refine ⟨?_, ?_, ?_⟩
  · intro l hl hd
    cases h1 l hl with
    | inl h => rw [hd] at h; cases h
    | inr h => exact h
  · intro i l hl hlt
    have : (f.take first)[i]? = some l := by rw [List.getElem?_take, if_pos hlt]; exact hl
    have := h2 l (List.mem_of_getElem? this)
    simpa using this
  · intro l hl hd
    cases h3 l hl with
    | inl h => rw [hd] at h; cases h
    | inr h => exact h

/-! ## a Boolean form of `Safe` (so that `decide` can evaluate it on concrete files) -/

def safeB (f : File) : Where → Bool
  | .newLineAt k =>
    decide (k ≤ f.length) &&
      !(decide (0 < k) && dirAt f (k - 1) && (match f[k]? with | some l => !l.refs.isEmpty | none => false))
  | .sameLine => true

theorem safeB_iff (f : File) (w : Where) : safeB f w = true ↔ Safe f w := by
  cases w with
  | sameLine => simp [safeB, Safe]
  | newLineAt k =>
    unfold safeB Safe
    cases hk : f[k]? with
    | none => simp [hk]
    | some l =>
      simp only [hk, Bool.and_eq_true, decide_eq_true_eq, Bool.not_eq_true', Bool.and_eq_false_iff,
        decide_eq_false_iff_not, Option.some.injEq, exists_eq_left']
      constructor
      · rintro ⟨h1, h2⟩
        refine ⟨h1, ?_⟩
        rintro ⟨h3, h4, h5⟩
        rcases h2 with (h2 | h2) | h2
        · exact h2 h3
        · rw [h4] at h2; cases h2
        · apply h5
          simpa using h2
      · rintro ⟨h1, h2⟩
        refine ⟨h1, ?_⟩
        by_cases h3 : 0 < k
        · cases h4 : dirAt f (k - 1) with
          | false => exact Or.inl (Or.inr rfl)
          | true =>
            right
            cases h5 : l.refs with
            | nil => rfl
            | cons a as =>
              exfalso; apply h2
              refine ⟨h3, h4, ?_⟩
              rw [h5]; simp
        · exact Or.inl (Or.inl h3)

instance (f : File) (w : Where) : Decidable (Safe f w) := decidable_of_iff _ (safeB_iff f w)

end DL.Imp
