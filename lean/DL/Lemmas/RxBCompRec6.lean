import DL.Lemmas.RxBCompRec5

/-! # Annex B (no `u` flag), completeness: extended atoms -/
namespace DL.Rx
open DL.RxSpec DL.Gen.Unicode

attribute [local irreducible] isScalar
variable {src : List Nat} {K : Bool × Nat}

theorem atomB_dot {r : List Nat} : PAtB src K (ch '.' :: r) r Attr.nil := by
  intro n s hat hnd
  cases n with
  | zero => exact Wc.outOfFuel
  | succ n =>
    unfold consumeExtendedAtom
    rx7_autos
    exact ⟨rfl, ‹BAt src K r _›, TrackC.ofKeepN ⟨rfl, rfl⟩⟩

theorem atomB_escape (hN : K.2 < 2 ^ 62) {m r : List Nat} {a : Attr} (hae : RxSpecB.AtomEscape K.1 K.2 m r a) :
    PAtB src K (ch '\\' :: m) r a := by
  intro n s hat hnd
  cases n with
  | zero => exact Wc.outOfFuel
  | succ n =>
    have hrs := fun s h => consumeReverseSolidusAtomEscape_wd (src := src) (K := K) hN n m r a s h hae
    unfold consumeExtendedAtom
    rx7_autos
    exact ⟨rfl, ‹BAt src K r _›, ‹TrackC _ _ a›⟩

theorem atomB_backslashC {r : List Nat} (hn : ∀ l, r.head? = some l → ¬ControlLetter l) :
    PAtB src K (ch '\\' :: ch 'c' :: r) (ch 'c' :: r) Attr.nil := by
  intro n s hat hnd
  cases n with
  | zero => exact Wc.outOfFuel
  | succ n =>
    have hrs := fun s h => consumeReverseSolidusAtomEscape_wdm (src := src) (K := K) n r s h hn
    unfold consumeExtendedAtom
    rx7_autos
    rename_i hk1 _ _ _ _ hk2
    exact ⟨rfl, ‹BAt src K (ch 'c' :: r) _›, TrackC.ofKeepN (KeepN.trans hk1 ⟨hk2.gn, hk2.bn⟩)⟩

theorem atomB_class {i r : List Nat} (hc : RxSpecB.CharacterClass K.1 i r) : PAtB src K i r Attr.nil := by
  intro n s hat hnd
  have hi : ∃ m, i = ch '[' :: m := by cases hc <;> exact ⟨_, rfl⟩
  obtain ⟨m, rfl⟩ := hi
  have h5 : ¬∃ m', ch '[' :: m = ch '\\' :: ch 'c' :: m' := no_eat2_ne1 (by decide)
  cases n with
  | zero => exact Wc.outOfFuel
  | succ n =>
    unfold consumeExtendedAtom
    rx7_autos
    exact ⟨rfl, ‹BAt src K r _›, TrackC.ofKeepN ‹KeepN _ _›⟩

theorem atomB_nonCapturing {m r : List Nat} {a : Attr} (hdj : PDjB src K m (ch ')' :: r) a) :
    PAtB src K (ch '(' :: ch '?' :: ch ':' :: m) r a := by
  intro n s hat hnd
  have hgrp := uncapturing_wd (src := src) (K := K) hdj
  have h5 : ¬∃ m', ch '(' :: ch '?' :: ch ':' :: m = ch '\\' :: ch 'c' :: m' := no_eat2_ne1 (by decide)
  cases n with
  | zero => exact Wc.outOfFuel
  | succ n =>
    unfold consumeExtendedAtom
    rx7_autos
    exact ⟨by first | rfl | assumption, ‹BAt src K r _›, ‹TrackC _ _ _›⟩

theorem atomB_group_named {m m₂ r : List Nat} {nm : Name} {a : Attr} (hg : RxSpecB.GroupName m m₂ nm)
    (hdj : PDjB src K m₂ (ch ')' :: r) a) :
    PAtB src K (ch '(' :: ch '?' :: m) r (⟨[some nm], []⟩ ++ a) := by
  intro n s hat hnd
  have hgrp := capturing_named_wd (src := src) (K := K) hg hdj
  obtain ⟨m', rfl, _⟩ := hg
  have h5 : ¬∃ m'', ch '(' :: ch '?' :: ch '<' :: m' = ch '\\' :: ch 'c' :: m'' := no_eat2_ne1 (by decide)
  cases n with
  | zero => exact Wc.outOfFuel
  | succ n =>
    unfold consumeExtendedAtom
    rx7_autos
    exact ⟨by first | rfl | assumption, ‹BAt src K r _›, ‹TrackC _ _ _›⟩

theorem atomB_group_empty {m r : List Nat} {a : Attr} (hq : m.head? ≠ some (ch '?'))
    (hdj : PDjB src K m (ch ')' :: r) a) :
    PAtB src K (ch '(' :: m) r (⟨[none], []⟩ ++ a) := by
  intro n s hat hnd
  have hgrp := capturing_empty_wd (src := src) (K := K) hq hdj
  have hne3 : ¬∃ r', ch '(' :: m = ch '(' :: ch '?' :: ch ':' :: r' := by
    rintro ⟨r', e⟩
    exact hq (by rw [(List.cons.inj e).2]; rfl)
  have h5 : ¬∃ m', ch '(' :: m = ch '\\' :: ch 'c' :: m' := no_eat2_ne1 (by decide)
  cases n with
  | zero => exact Wc.outOfFuel
  | succ n =>
    unfold consumeExtendedAtom
    rx7_autos
    exact ⟨by first | rfl | assumption, ‹BAt src K r _›, ‹TrackC _ _ _›⟩

theorem atomB_patternCharacter {x : Nat} {r : List Nat} (hx : RxSpecB.ExtendedPatternCharacter x)
    (hno : ¬∃ r', RxSpecB.InvalidBracedQuantifier (x :: r) r') : PAtB src K (x :: r) r Attr.nil := by
  intro n s hat hnd
  have hx2 := hx.2
  simp only [List.mem_cons, List.not_mem_nil, or_false, not_or] at hx2
  have e : ∀ a, c a = ch a := fun _ => rfl
  simp only [e] at hx2
  have h1 : (x :: r).head? ≠ some (ch '.') := head_ne_of_ne hx2.2.2.2.1 _
  have h2 : (x :: r).head? ≠ some (ch '\\') := head_ne_of_ne hx2.2.2.1 _
  have h3 : (x :: r).head? ≠ some (ch '[') := head_ne_of_ne hx2.2.2.2.2.2.2.2.2.2.1 _
  have h4 : (x :: r).head? ≠ some (ch '(') := head_ne_of_ne hx2.2.2.2.2.2.2.2.1 _
  have h5 : ¬∃ m, x :: r = ch '\\' :: ch 'c' :: m := no_eat2_ne1 hx2.2.2.1
  have h6 : ¬∃ r', x :: r = ch '(' :: ch '?' :: ch ':' :: r' := no_eat3_head h4
  cases n with
  | zero => exact Wc.outOfFuel
  | succ n =>
    unfold consumeExtendedAtom
    rx7_autos
    rename_i hk1 _ _ _ _ hk2
    exact ⟨by assumption, ‹BAt src K r _›, TrackC.ofKeepN (KeepN.trans hk1 ⟨hk2.gn, hk2.bn⟩)⟩

end DL.Rx
