import DL.Lemmas.RxBCompAtom
import DL.Lemmas.RxBCompClass2
import DL.Lemmas.RxCompRec3
import DL.Lemmas.RxBScanG

/-! # Annex B (no `u` flag), completeness: follow sets, the list view of `Alternative` -/
namespace DL.Rx
open DL.RxSpec DL.Gen.Unicode

variable {src : List Nat} {K : Bool × Nat}

theorem not_ibq_of_ne {x : Nat} {m : List Nat} (h : x ≠ ch '{') : ¬∃ r', RxSpecB.InvalidBracedQuantifier (x :: m) r' := by
  rintro ⟨r', m', e, _⟩
  exact h (List.cons.inj e).1

theorem NoQB.of_ne {x : Nat} {m : List Nat} (h : x ≠ ch '*' ∧ x ≠ ch '+' ∧ x ≠ ch '?' ∧ x ≠ ch '{') : NoQB (x :: m) :=
  ⟨head_ne_of_ne h.1 _, head_ne_of_ne h.2.1 _, head_ne_of_ne h.2.2.1 _, not_ibq_of_ne h.2.2.2⟩

theorem NoQB.nil : NoQB [] :=
  ⟨nil_head_ne _, nil_head_ne _, nil_head_ne _, by rintro ⟨r', m', e, _⟩; cases e⟩

theorem NoQB.of_head {r : List Nat} {x : Nat} (h : r.head? = some x)
    (hx : x ≠ ch '*' ∧ x ≠ ch '+' ∧ x ≠ ch '?' ∧ x ≠ ch '{') : NoQB r := by
  cases r with
  | nil => cases h
  | cons y m => cases h; exact NoQB.of_ne hx

theorem AltFollow.noQB {r : List Nat} (h : AltFollow r) : NoQB r := by
  rcases h with rfl | h | h
  · exact NoQB.nil
  · exact NoQB.of_head h (by decide)
  · exact NoQB.of_head h (by decide)

/-- a term, an assertion, an atom does not start with a quantifier; an alternative / a disjunction does
not, unless it is empty and what follows does -/
theorem derives_noQB {nf : Bool} {qok : Nat → Nat → Prop} {N : Nat} {sym : RxSpecB.Sym} {i r : List Nat} {a : Attr}
    (h : RxSpecB.Derives nf qok N sym i r a) : (NoQB r ∨ isTAAB sym = true) → NoQB i := by
  induction h with
  | disjOne i r a _ ih => exact fun h => ih (h.imp id (fun h => by cases h))
  | disjMore i m r a₁ a₂ _ _ ih1 _ => exact fun _ => ih1 (.inl (NoQB.of_ne (by decide)))
  | altEmpty r => exact fun h => h.elim id (fun h => by cases h)
  | altSnoc i m r a₁ a₂ _ _ ih1 ih2 => exact fun _ => ih1 (.inl (ih2 (.inr rfl)))
  | termQAssertionQuantified i m r a _ _ ih => exact fun _ => ih (.inr rfl)
  | termAssertion i r a _ ih => exact fun _ => ih (.inr rfl)
  | termAtomQuantified i m r a _ _ _ ih => exact fun _ => ih (.inr rfl)
  | termAtom i r a _ _ ih => exact fun _ => ih (.inr rfl)
  | caret r => exact fun _ => NoQB.of_ne (by decide)
  | dollar r => exact fun _ => NoQB.of_ne (by decide)
  | wordBoundary r => exact fun _ => NoQB.of_ne (by decide)
  | notWordBoundary r => exact fun _ => NoQB.of_ne (by decide)
  | quantifiable i r a _ ih => exact fun _ => ih (.inr rfl)
  | lookahead i m r a hl _ _ => exact fun _ => by rw [show i = _ from hl]; exact NoQB.of_ne (by decide)
  | negativeLookahead i m r a hl _ _ => exact fun _ => by rw [show i = _ from hl]; exact NoQB.of_ne (by decide)
  | lookbehind i m r a hl _ _ => exact fun _ => by rw [show i = _ from hl]; exact NoQB.of_ne (by decide)
  | negativeLookbehind i m r a hl _ _ => exact fun _ => by rw [show i = _ from hl]; exact NoQB.of_ne (by decide)
  | dot r => exact fun _ => NoQB.of_ne (by decide)
  | atomEscape m r a _ => exact fun _ => NoQB.of_ne (by decide)
  | backslashC r _ => exact fun _ => NoQB.of_ne (by decide)
  | characterClass i r hc =>
    intro _
    cases hc <;> exact NoQB.of_ne (by decide)
  | group m₁ m₂ r name a _ _ _ => exact fun _ => NoQB.of_ne (by decide)
  | nonCapturing i m r a hl _ _ => exact fun _ => by rw [show i = _ from hl]; exact NoQB.of_ne (by decide)
  | extendedPatternCharacter x r hx hno =>
    intro _
    refine ⟨?_, ?_, ?_, hno⟩ <;> (refine head_ne_of_ne ?_ _; intro e; subst e; exact hx.2 (by decide))

/-- a term is not empty -/
theorem term_consB {nf : Bool} {qok : Nat → Nat → Prop} {N : Nat} {sym : RxSpecB.Sym} {i r : List Nat} {a : Attr}
    (h : RxSpecB.Derives nf qok N sym i r a) : isTAAB sym = true → ∃ x m, i = x :: m := by
  induction h with
  | disjOne => exact fun h => by cases h
  | disjMore => exact fun h => by cases h
  | altEmpty => exact fun h => by cases h
  | altSnoc => exact fun h => by cases h
  | termQAssertionQuantified i m r a _ _ ih => exact fun _ => ih rfl
  | termAssertion i r a _ ih => exact fun _ => ih rfl
  | termAtomQuantified i m r a _ _ _ ih => exact fun _ => ih rfl
  | termAtom i r a _ _ ih => exact fun _ => ih rfl
  | quantifiable i r a _ ih => exact fun _ => ih rfl
  | lookahead i m r a hl _ _ => exact fun _ => ⟨_, _, hl⟩
  | negativeLookahead i m r a hl _ _ => exact fun _ => ⟨_, _, hl⟩
  | lookbehind i m r a hl _ _ => exact fun _ => ⟨_, _, hl⟩
  | negativeLookbehind i m r a hl _ _ => exact fun _ => ⟨_, _, hl⟩
  | nonCapturing i m r a hl _ _ => exact fun _ => ⟨_, _, hl⟩
  | characterClass i r hc => intro _; cases hc <;> exact ⟨_, _, rfl⟩
  | _ => exact fun _ => ⟨_, _, rfl⟩

/-- an `Alternative` as the list of its terms, each with a property `P` (the induction hypothesis) -/
inductive TermsPB (K : Bool × Nat) (P : List Nat → List Nat → Attr → Prop) : List Nat → List Nat → Attr → Prop
  | nil (r : List Nat) : TermsPB K P r r Attr.nil
  | cons (i m r : List Nat) (a₁ a₂ : Attr) : RxSpecB.Derives K.1 qokSat K.2 .Term i m a₁ → P i m a₁ →
      TermsPB K P m r a₂ → TermsPB K P i r (a₁ ++ a₂)

theorem TermsPB.snoc {P : List Nat → List Nat → Attr → Prop} {i m r : List Nat} {a₁ a₂ : Attr}
    (h : TermsPB K P i m a₁) (ht : RxSpecB.Derives K.1 qokSat K.2 .Term m r a₂) (hp : P m r a₂) :
    TermsPB K P i r (a₁ ++ a₂) := by
  induction h with
  | nil r0 =>
    rw [Attr.nil_append, ← Attr.append_nil a₂]
    exact TermsPB.cons _ _ _ _ _ ht hp (TermsPB.nil _)
  | cons i0 m0 r0 b₁ b₂ ht0 hp0 _ ih =>
    rw [Attr.append_assoc]
    exact TermsPB.cons _ _ _ _ _ ht0 hp0 (ih ht hp)

theorem TermsPB.noQ {P : List Nat → List Nat → Attr → Prop} {i r : List Nat} {a : Attr}
    (h : TermsPB K P i r a) (hr : NoQB r) : NoQB i := by
  cases h with
  | nil => exact hr
  | cons _ m _ a₁ a₂ ht _ _ => exact derives_noQB ht (.inr rfl)

end DL.Rx
