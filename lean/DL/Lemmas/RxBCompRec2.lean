import DL.Lemmas.RxBCompRec1

/-! # Annex B (no `u` flag), completeness: where the recursive functions answer `false` -/
namespace DL.Rx
open DL.RxSpec DL.Gen.Unicode

attribute [local irreducible] isScalar
variable {src : List Nat} {K : Bool × Nat}

theorem consumeAssertion_wdn (n : Nat) (i : List Nat) (s : St) (h : BAt src K i s) (hn : NAS i) :
    Wc (consumeAssertion n s) (fun b s1 => b = false ∧ BAt src K i s1 ∧ KeepN s s1) := by
  obtain ⟨h1, h2, h3, h4, h5⟩ := hn
  cases n with
  | zero => exact Wc.outOfFuel
  | succ n =>
    rcases h5 with h5 | ⟨r', rfl, h6, h7, h8⟩ | ⟨r', rfl, h6, h7⟩
    · unfold consumeAssertion
      rx7_autos
      all_goals first | exact ⟨rfl, by rx6_at, ⟨rfl, rfl⟩⟩ | (rx7_fin; done)
    · unfold consumeAssertion
      rx7_autos
      all_goals first | exact ⟨rfl, by rx6_at, ⟨rfl, rfl⟩⟩ | (rx7_fin; done)
    · unfold consumeAssertion
      rx7_autos
      all_goals first | exact ⟨rfl, by rx6_at, ⟨rfl, rfl⟩⟩ | (rx7_fin; done)

theorem consumeUncapturingGroup_wdn (n : Nat) (i : List Nat) (s : St) (h : BAt src K i s)
    (hn : ¬∃ r', i = ch '(' :: ch '?' :: ch ':' :: r') :
    Wc (consumeUncapturingGroup n s) (fun b s1 => b = false ∧ s1 = s) := by
  cases n with
  | zero => exact Wc.outOfFuel
  | succ n =>
    unfold consumeUncapturingGroup
    rx7_autos
    exact ⟨rfl, rfl⟩

theorem consumeCapturingGroup_wdn (n : Nat) (i : List Nat) (s : St) (h : BAt src K i s)
    (hn : i.head? ≠ some (ch '(')) :
    Wc (consumeCapturingGroup n s) (fun b s1 => b = false ∧ s1 = s) := by
  cases n with
  | zero => exact Wc.outOfFuel
  | succ n =>
    unfold consumeCapturingGroup
    rx7_autos
    exact ⟨rfl, rfl⟩

/-- at the end of an alternative there is no `ExtendedAtom` -/
theorem consumeExtendedAtom_wdn (n : Nat) (i : List Nat) (s : St) (h : BAt src K i s) (hf : AltFollow i) :
    Wc (consumeExtendedAtom n s) (fun b s1 => b = false ∧ BAt src K i s1 ∧ KeepN s s1) := by
  have h1 : i.head? ≠ some (ch '.') := by rcases hf with rfl | h | h <;> simp_all <;> decide
  have h2 : i.head? ≠ some (ch '\\') := by rcases hf with rfl | h | h <;> simp_all <;> decide
  have h3 : i.head? ≠ some (ch '[') := by rcases hf with rfl | h | h <;> simp_all <;> decide
  have h4 : i.head? ≠ some (ch '(') := by rcases hf with rfl | h | h <;> simp_all <;> decide
  have h5 : ¬∃ m, i = ch '\\' :: ch 'c' :: m := by
    rintro ⟨m, rfl⟩; exact h2 rfl
  have h6 : ¬∃ r', i = ch '(' :: ch '?' :: ch ':' :: r' := no_eat3_head h4
  have h7 : ¬∃ r', RxSpecB.InvalidBracedQuantifier i r' := hf.noQB.2.2.2
  have h8 : ∀ x, i.head? = some x →
      x ∈ [c '^', c '$', c '\\', c '.', c '*', c '+', c '?', c '(', c ')', c '[', c '|'] := by
    intro x hx
    rcases hf with rfl | h | h
    · cases hx
    · rw [h] at hx; cases hx; decide
    · rw [h] at hx; cases hx; decide
  cases n with
  | zero => exact Wc.outOfFuel
  | succ n =>
    unfold consumeExtendedAtom
    rx7_autos
    exact ⟨by assumption, by assumption, by assumption⟩

theorem consumeTerm_wdn (n : Nat) (i : List Nat) (s : St) (h : BAt src K i s) (hf : AltFollow i) :
    Wc (consumeTerm n s) (fun b s1 => b = false ∧ BAt src K i s1 ∧ KeepN s s1) := by
  have ha := hf.nas
  cases n with
  | zero => exact Wc.outOfFuel
  | succ n =>
    unfold consumeTerm
    rx7_autos
    rename_i k1 _ _ _ _ k2
    exact ⟨rfl, by assumption, KeepN.trans k1 k2⟩

/-- an `AtomEscape`-free view: an `ExtendedAtom` that is no word boundary does not start like an `Assertion` -/
theorem atom_nasB {nf : Bool} {N : Nat} {i r : List Nat} {a : Attr} (h : RxSpecB.Derives nf qokSat N .ExtendedAtom i r a)
    (hw : ¬RxSpecB.StartsWordBoundary i) : NAS i := by
  cases h with
  | dot _ => exact NAS.of_ne (by decide)
  | atomEscape m _ _ hae =>
    refine ⟨head_ne_of_ne (by decide) _, head_ne_of_ne (by decide) _, ?_, ?_, .inl (no_eat2_ne1 (by decide))⟩
    · rintro ⟨r', e⟩
      exact hw ⟨r', .inr e⟩
    · rintro ⟨r', e⟩
      exact hw ⟨r', .inl e⟩
  | backslashC _ _ =>
    exact ⟨head_ne_of_ne (by decide) _, head_ne_of_ne (by decide) _, no_eat2_ne2 (by decide), no_eat2_ne2 (by decide),
      .inl (no_eat2_ne1 (by decide))⟩
  | characterClass _ _ hc => cases hc <;> exact NAS.of_ne (by decide)
  | group m₁ m₂ _ name a' hg hd =>
    refine ⟨head_ne_of_ne (by decide) _, head_ne_of_ne (by decide) _, no_eat2_ne1 (by decide), no_eat2_ne1 (by decide), ?_⟩
    cases hg with
    | empty _ =>
      refine .inl ?_
      rintro ⟨r', e⟩
      have hq : m₁.head? ≠ some (c '?') := derives_headB hd (.inl (head_cons_ne (by decide) _))
      exact hq (by rw [(List.cons.inj e).2]; rfl)
    | named m _ nm hgn =>
      obtain ⟨m', rfl, hname⟩ := hgn
      obtain ⟨e1, e2⟩ := idName_headB hname
      exact .inr (.inr ⟨m', rfl, e1, e2⟩)
  | nonCapturing _ m _ _ hl _ =>
    have e : i = ch '(' :: ch '?' :: ch ':' :: m := hl
    subst e
    refine ⟨head_ne_of_ne (by decide) _, head_ne_of_ne (by decide) _, no_eat2_ne1 (by decide), no_eat2_ne1 (by decide), ?_⟩
    exact .inr (.inl ⟨_, rfl, head_ne_of_ne (by decide) _, head_ne_of_ne (by decide) _, head_ne_of_ne (by decide) _⟩)
  | extendedPatternCharacter x _ hx _ =>
    refine NAS.of_ne ⟨?_, ?_, ?_, ?_⟩ <;> (intro e; subst e; exact hx.2 (by decide))

end DL.Rx
