import DL.Lemmas.RxBTac
import DL.Lemmas.RxSpecQuant

/-! # Annex B (no `u` flag): the scanners that do not depend on the mode (copies of the `UAt` proofs) -/
namespace DL.Rx
open DL.RxSpec

attribute [local irreducible] isScalar
variable {src : List Nat} {K : Bool × Nat}

theorem eatDecimalEscapeLoop_wb : ∀ (n : Nat) (r : List Nat) (s : St), BAt src K r s →
    Wp (eatDecimalEscapeLoop n s) (fun _ s1 => ∃ ds r1, r = ds ++ r1 ∧ (∀ d ∈ ds, DecimalDigit d) ∧
      (∀ d, r1.head? = some d → ¬DecimalDigit d) ∧ BAt src K r1 s1 ∧
      s1 = (s.setPos src (s.reader.index + ds.length)).withInt (accDec s.lastIntValue ds))
  | 0, _, _, _ => Wp.outOfFuel
  | n + 1, r, s, h => by
    have ih := eatDecimalEscapeLoop_wb n
    unfold eatDecimalEscapeLoop
    rx6_auto
    · -- a digit: the rest of the run comes from the induction hypothesis
      rename_i x r' hn d hd hat a s1 ds r1 hr hds hnx hat1 hs1
      subst hs1
      have hx : isAsciiDigit x = true := by simpa using hn
      rw [toDigit10_eq hx] at hd
      cases hd
      refine ⟨x :: ds, r1, by rw [hr]; rfl, ?_, hnx, hat1, ?_⟩
      · intro d hd
        rcases List.mem_cons.mp hd with rfl | hd
        · exact decimalDigit_of_isAsciiDigit hx
        · exact hds d hd
      · st_norm
        rw [accDec_cons, List.length_cons, Nat.add_assoc, Nat.add_comm 1]
    · -- not a digit
      rename_i x r' hc
      refine ⟨[], x :: r', rfl, forall_mem_nil, ?_, h, ?_⟩
      · intro d hd; cases hd; exact not_decimalDigit_of hc
      · show s = (s.setPos src (s.reader.index + 0)).withInt s.lastIntValue
        rw [Nat.add_zero, setPos_self h.inv]; rfl
    · -- end of input
      exact ⟨[], [], rfl, forall_mem_nil, forall_head_nil, h, by
        show s = (s.setPos src (s.reader.index + 0)).withInt s.lastIntValue
        rw [Nat.add_zero, setPos_self h.inv]; rfl⟩

theorem eatDecimalEscape_wb (n : Nat) (r : List Nat) (s : St) (h : BAt src K r s) :
    Wp (eatDecimalEscape n s) (fun b s1 => Keep s s1 ∧
      if b = true then ∃ r1 v, BAt src K r1 s1 ∧ DecimalEscape r r1 v ∧ s1.lastIntValue = satI v
      else BAt src K r s1 ∧ ∀ d, r.head? = some d → ¬NonZeroDigit d) := by
  unfold eatDecimalEscape
  rx6_auto
  · rx6_falsen
    rename_i x r' hn
    intro d hd hnz
    have e : x = d := by simpa using hd
    subst e
    apply hn
    have h' : 0x31 ≤ x ∧ x ≤ 0x39 := hnz
    rw [isAsciiDigit_of_decimalDigit (show DecimalDigit x from (by show 0x30 ≤ x ∧ x ≤ 0x39; omega))]
    have : x ≠ ch '0' := by show x ≠ 0x30; omega
    simpa using this
  · rename_i x r' hc d hd
    have hx : isAsciiDigit x = true := (Bool.and_eq_true _ _ |>.mp hc).1
    have hx0 : x ≠ ch '0' := by
      have := (Bool.and_eq_true _ _ |>.mp hc).2
      simpa using this
    have hdd := decimalDigit_of_isAsciiDigit hx
    rw [toDigit10_eq hx] at hd
    cases hd
    have hle := decVal_le hdd
    refine Wp.bind_checkedI64 (by
      show i64Min ≤ 10 * (0 : Int) + (decVal x : Int) ∧ 10 * (0 : Int) + (decVal x : Int) ≤ i64Max
      unfold i64Min i64Max; omega) ?_
    rx6_auto
    rename_i hat a s1 ds r1 hr hds hnx hat1 hs1
    subst hs1
    refine ⟨⟨rfl, rfl, rfl⟩, ?_⟩
    rw [if_pos rfl]
    refine ⟨r1, mvDec (x :: ds), hat1, ⟨x :: ds, by rw [hr]; rfl, ⟨x, ds, rfl, ?_⟩, ?_, hnx, rfl⟩, ?_⟩
    · have h' : 0x30 ≤ x ∧ x ≤ 0x39 := hdd
      have : x ≠ 0x30 := hx0
      show 0x31 ≤ x ∧ x ≤ 0x39
      omega
    · intro d hd
      rcases List.mem_cons.mp hd with rfl | hd
      · exact hdd
      · exact hds d hd
    · st_norm
      show accDec (10 * (0 : Int) + (decVal x : Int)) ds = satI (mvDec (x :: ds))
      have : (10 * (0 : Int) + (decVal x : Int)) = satI (decVal x) := by
        unfold satI i64Max; rw [if_pos (by omega)]; omega
      rw [this, accDec_satI]
      show satI _ = satI (List.foldl _ (10 * 0 + decVal x) ds)
      rw [Nat.mul_zero, Nat.zero_add]
  · rx6_falsen
    exact fun d hd => nomatch hd

theorem eatFixedHexDigitsLoop_wb (start : Nat) (hle : start ≤ src.length) :
    ∀ (k j : Nat) (r : List Nat) (s : St) (a : Nat), BAt src K r s → s.lastIntValue = (a : Int) → a < 16 ^ j →
      j + k ≤ 15 →
      Wp (eatFixedHexDigitsLoop start k s) (fun b s1 => Keep s s1 ∧
        if b = true then ∃ ds r1, r = ds ++ r1 ∧ ds.length = k ∧ (∀ d ∈ ds, HexDigit d) ∧ BAt src K r1 s1 ∧
          s1.lastIntValue = (accHexN a ds : Nat)
        else BAt src K (src.drop start) s1 ∧ ¬∃ ds r1, r = ds ++ r1 ∧ ds.length = k ∧ ∀ d ∈ ds, HexDigit d)
  | 0, j, r, s, a, h, ha, haj, hjk => by
    unfold eatFixedHexDigitsLoop
    refine Wp.pure ?_
    rx6_true
    exact ⟨[], r, rfl, rfl, forall_mem_nil, h, ha⟩
  | k + 1, j, r, s, a, h, ha, haj, hjk => by
    have ih := eatFixedHexDigitsLoop_wb start hle k (j + 1)
    unfold eatFixedHexDigitsLoop
    rx6_auto
    · rename_i x r' hn d hd
      have hx : isAsciiHexdigit x = true := by simpa using hn
      have hhd := hexDigit_of_isAsciiHexdigit hx
      have hlt := hexVal_lt hhd
      rw [toDigit16_eq hx] at hd
      cases hd
      have hpow : 16 ^ (j + 1) ≤ 16 ^ 15 := Nat.pow_le_pow_right (by decide) (by omega)
      have h15 : 16 ^ 15 = 1152921504606846976 := by decide
      have hnew : 16 * a + hexVal x < 16 ^ (j + 1) := by rw [Nat.pow_succ]; omega
      refine Wp.bind_checkedI64 (by rw [ha]; unfold i64Min i64Max; omega) ?_
      rx6_step
      rx6_step
      have hint : ((s.withInt (16 * s.lastIntValue + (hexVal x : Int))).setPos src
          ((s.withInt (16 * s.lastIntValue + (hexVal x : Int))).reader.index + 1)).lastIntValue =
          ((16 * a + hexVal x : Nat) : Int) := by
        st_norm; rw [ha]; omega
      rename_i hat
      refine Wp.mono (ih _ _ (16 * a + hexVal x) hat hint hnew (by omega)) (fun b s1 hpost => ?_)
      have hk0 : Keep s ((s.withInt (16 * s.lastIntValue + (hexVal x : Int))).setPos src
          ((s.withInt (16 * s.lastIntValue + (hexVal x : Int))).reader.index + 1)) := ⟨rfl, rfl, rfl⟩
      obtain ⟨hk, hb⟩ := hpost
      have hk' := hk0.trans hk
      clear hk hk0
      cases b
      · rw [if_neg (by decide)] at hb
        refine ⟨hk', ?_⟩
        rw [if_neg (by decide)]
        refine ⟨hb.1, ?_⟩
        rintro ⟨ds, r1, hr, hlen, hds⟩
        cases ds with
        | nil => cases hlen
        | cons y ds' =>
          have h1 : x = y ∧ r' = ds' ++ r1 := by simpa using hr
          exact hb.2 ⟨ds', r1, h1.2, by simpa using hlen, fun d hd => hds d (List.mem_cons_of_mem _ hd)⟩
      · rw [if_pos rfl] at hb
        obtain ⟨ds, r1, hr, hlen, hds, hat1, hv⟩ := hb
        refine ⟨hk', ?_⟩
        rw [if_pos rfl]
        refine ⟨x :: ds, r1, by rw [hr]; rfl, by rw [List.length_cons, hlen], ?_, hat1, ?_⟩
        · intro d hd
          rcases List.mem_cons.mp hd with rfl | hd
          · exact hhd
          · exact hds d hd
        · rw [hv, accHexN_cons]
    · rename_i x r' hc hat
      refine ⟨⟨rfl, rfl, rfl⟩, ?_⟩
      rw [if_neg (by decide)]
      refine ⟨hat, ?_⟩
      rintro ⟨ds, r1, hr, hlen, hds⟩
      cases ds with
      | nil => cases hlen
      | cons y ds' =>
        have h1 : x = y ∧ r' = ds' ++ r1 := by simpa using hr
        have : HexDigit x := h1.1 ▸ hds y List.mem_cons_self
        have hx : isAsciiHexdigit x = true := isAsciiHexdigit_of_hexDigit this
        rw [hx] at hc; cases hc
    · rename_i hat
      refine ⟨⟨rfl, rfl, rfl⟩, ?_⟩
      rw [if_neg (by decide)]
      refine ⟨hat, ?_⟩
      rintro ⟨ds, r1, hr, hlen, hds⟩
      cases ds with
      | nil => cases hlen
      | cons y ds' => cases hr

/-- `eat_fixed_hex_digits(k)`: exactly `k` hexadecimal digits, or nothing -/
theorem eatFixedHexDigits_wb (k : Nat) (hk : k ≤ 15) (r : List Nat) (s : St) (h : BAt src K r s) :
    Wp (eatFixedHexDigits k s) (fun b s1 => Keep s s1 ∧
      if b = true then ∃ ds r1, r = ds ++ r1 ∧ ds.length = k ∧ (∀ d ∈ ds, HexDigit d) ∧ BAt src K r1 s1 ∧
        s1.lastIntValue = (mvHex ds : Nat)
      else BAt src K r s1 ∧ ¬∃ ds r1, r = ds ++ r1 ∧ ds.length = k ∧ ∀ d ∈ ds, HexDigit d) := by
  unfold eatFixedHexDigits
  rx6_step
  rx6_step
  have h' : BAt src K r (s.withInt 0) := BAt.of_eq h rfl rfl rfl rfl rfl
  refine Wp.mono (eatFixedHexDigitsLoop_wb s.reader.index h.inv.le k 0 r (s.withInt 0) 0 h' rfl (by decide) (by omega))
    (fun b s1 hpost => ?_)
  obtain ⟨hk1, hb⟩ := hpost
  refine ⟨⟨hk1.gn, hk1.bn, hk1.str⟩, ?_⟩
  cases b
  · rw [if_neg (by decide)] at hb ⊢
    rw [h.rest] at hb; exact hb
  · rw [if_pos rfl] at hb ⊢
    exact hb

theorem eatHexDigitsLoop_wb : ∀ (n : Nat) (r : List Nat) (s : St), BAt src K r s →
    Wp (eatHexDigitsLoop n s) (fun _ s1 => ∃ ds r1, r = ds ++ r1 ∧ (∀ d ∈ ds, HexDigit d) ∧
      (∀ d, r1.head? = some d → ¬HexDigit d) ∧ BAt src K r1 s1 ∧
      s1 = (s.setPos src (s.reader.index + ds.length)).withInt (accHex s.lastIntValue ds))
  | 0, _, _, _ => Wp.outOfFuel
  | n + 1, r, s, h => by
    have ih := eatHexDigitsLoop_wb n
    unfold eatHexDigitsLoop
    rx6_auto
    · rename_i x r' hn d hd hat a s1 ds r1 hr hds hnx hat1 hs1
      subst hs1
      have hx : isAsciiHexdigit x = true := by simpa using hn
      rw [toDigit16_eq hx] at hd
      cases hd
      refine ⟨x :: ds, r1, by rw [hr]; rfl, ?_, hnx, hat1, ?_⟩
      · intro d hd
        rcases List.mem_cons.mp hd with rfl | hd
        · exact hexDigit_of_isAsciiHexdigit hx
        · exact hds d hd
      · st_norm
        rw [accHex_cons, List.length_cons, Nat.add_assoc, Nat.add_comm 1]
    · rename_i x r' hc
      refine ⟨[], x :: r', rfl, forall_mem_nil, ?_, h, ?_⟩
      · intro d hd; cases hd; exact not_hexDigit_of hc
      · show s = (s.setPos src (s.reader.index + 0)).withInt s.lastIntValue
        rw [Nat.add_zero, setPos_self h.inv]; rfl
    · exact ⟨[], [], rfl, forall_mem_nil, forall_head_nil, h, by
        show s = (s.setPos src (s.reader.index + 0)).withInt s.lastIntValue
        rw [Nat.add_zero, setPos_self h.inv]; rfl⟩

/-- `eat_hex_digits`: the maximal run of hexadecimal digits; `true` iff it is non-empty -/
theorem eatHexDigits_wb (n : Nat) (r : List Nat) (s : St) (h : BAt src K r s) :
    Wp (eatHexDigits n s) (fun b s1 => Keep s s1 ∧ ∃ ds r1, r = ds ++ r1 ∧ (∀ d ∈ ds, HexDigit d) ∧
      (∀ d, r1.head? = some d → ¬HexDigit d) ∧ BAt src K r1 s1 ∧ s1.lastIntValue = satI (mvHex ds) ∧
      (b = true ↔ ds ≠ [])) := by
  unfold eatHexDigits
  rx6_auto
  rename_i a s1 ds r1 hr hds hnx hat1 hs1
  subst hs1
  refine ⟨⟨rfl, rfl, rfl⟩, ds, r1, hr, hds, hnx, hat1, ?_, ?_⟩
  · st_norm
    show accHex 0 ds = _
    have : (0 : Int) = satI 0 := rfl
    rw [this, accHex_satI]; rfl
  · st_norm
    cases ds with
    | nil => simp
    | cons d ds' => simp

theorem eatDecimalDigitsLoop_wb : ∀ (n : Nat) (r : List Nat) (s : St), BAt src K r s →
    Wp (eatDecimalDigitsLoop n s) (fun _ s1 => ∃ ds r1, r = ds ++ r1 ∧ (∀ d ∈ ds, DecimalDigit d) ∧
      (∀ d, r1.head? = some d → ¬DecimalDigit d) ∧ BAt src K r1 s1 ∧
      s1 = (s.setPos src (s.reader.index + ds.length)).withInt (accDec s.lastIntValue ds))
  | 0, _, _, _ => Wp.outOfFuel
  | n + 1, r, s, h => by
    have ih := eatDecimalDigitsLoop_wb n
    unfold eatDecimalDigitsLoop
    rx6_auto
    · rename_i x r' hn x' hx' d hd hat a s1 ds r1 hr hds hnx hat1 hs1
      subst hs1
      cases hx'
      have hx : isAsciiDigit x = true := by simpa using hn
      rw [toDigit10_eq hx] at hd
      cases hd
      refine ⟨x :: ds, r1, by rw [hr]; rfl, ?_, hnx, hat1, ?_⟩
      · intro d hd
        rcases List.mem_cons.mp hd with rfl | hd
        · exact decimalDigit_of_isAsciiDigit hx
        · exact hds d hd
      · st_norm
        rw [accDec_cons, List.length_cons, Nat.add_assoc, Nat.add_comm 1]
    · rename_i x r' hc
      refine ⟨[], x :: r', rfl, forall_mem_nil, ?_, h, ?_⟩
      · intro d hd; cases hd; exact not_decimalDigit_of hc
      · show s = (s.setPos src (s.reader.index + 0)).withInt s.lastIntValue
        rw [Nat.add_zero, setPos_self h.inv]; rfl
    · exact ⟨[], [], rfl, forall_mem_nil, forall_head_nil, h, by
        show s = (s.setPos src (s.reader.index + 0)).withInt s.lastIntValue
        rw [Nat.add_zero, setPos_self h.inv]; rfl⟩

/-- `eat_decimal_digits`: the maximal run of decimal digits; `true` iff it is non-empty -/
theorem eatDecimalDigits_wb (n : Nat) (r : List Nat) (s : St) (h : BAt src K r s) :
    Wp (eatDecimalDigits n s) (fun b s1 => ∃ ds r1, r = ds ++ r1 ∧ (∀ d ∈ ds, DecimalDigit d) ∧
      (∀ d, r1.head? = some d → ¬DecimalDigit d) ∧ BAt src K r1 s1 ∧
      s1 = (s.setPos src (s.reader.index + ds.length)).withInt (satI (mvDec ds)) ∧ (b = true ↔ ds ≠ [])) := by
  unfold eatDecimalDigits
  rx6_auto
  rename_i a s1 ds r1 hr hds hnx hat1 hs1
  subst hs1
  refine ⟨ds, r1, hr, hds, hnx, hat1, ?_, ?_⟩
  · st_norm
    rw [accDec_zero]
  · st_norm
    cases ds with
    | nil => simp
    | cons d ds' => simp

theorem eatRegexpUnicodeCodepointEscape_wb (n : Nat) (r : List Nat) (s : St) (h : BAt src K r s) :
    Wp (eatRegexpUnicodeCodepointEscape n s) (fun b s1 => Keep s s1 ∧
      if b = true then ∃ ds r1, r = ch '{' :: (ds ++ ch '}' :: r1) ∧ ds ≠ [] ∧ (∀ d ∈ ds, HexDigit d) ∧
        mvHex ds ≤ 0x10FFFF ∧ BAt src K r1 s1 ∧ s1.lastIntValue = (mvHex ds : Nat)
      else BAt src K r s1) := by
  unfold eatRegexpUnicodeCodepointEscape
  rx6_auto
  all_goals (try rx6_false)
  rename_i r' hat0 s1 hk ds hds hv hne r1 hat1 hr hnx hat2 hvalid
  rx6_true
  have hv' : s1.lastIntValue = satI (mvHex ds) := hv
  have hle : mvHex ds ≤ 0x10FFFF ∧ satI (mvHex ds) = (mvHex ds : Nat) := by
    have : isValidUnicode s1.lastIntValue = true := hvalid
    unfold isValidUnicode at this
    have h1 : s1.lastIntValue ≤ 0x10ffff := of_decide_eq_true this
    rw [hv'] at h1
    unfold satI i64Max at h1 ⊢
    split at h1 <;> constructor <;> omega
  refine ⟨ds, r1, by rw [hr], hne.mp trivial, hds, hle.1, hat1, ?_⟩
  show s1.lastIntValue = _
  rw [hv', hle.2]

theorem eatRegexpUnicodeSurrogatePairEscape_wb (r : List Nat) (s : St) (h : BAt src K r s) :
    Wp (eatRegexpUnicodeSurrogatePairEscape s) (fun b s1 => Keep s s1 ∧
      if b = true then ∃ r1 lead trail, PairText r r1 lead trail ∧ BAt src K r1 s1 ∧
        s1.lastIntValue = (((lead - 0xD800) * 0x400 + (trail - 0xDC00) + 0x10000 : Nat) : Int)
      else BAt src K r s1 ∧ ¬∃ r1 lead trail, PairText r r1 lead trail) := by
  unfold eatRegexpUnicodeSurrogatePairEscape
  rx6_auto
  · -- no four hexadecimal digits
    refine ⟨by rx6_keep, ?_⟩
    rw [if_neg (by decide)]
    refine ⟨by rx6_at, ?_⟩
    rintro ⟨r1, lead, trail, ds1, ds2, hr', l1, l2, hd1, hd2, -⟩
    exact ‹¬∃ ds r1, r = ds ++ r1 ∧ ds.length = 4 ∧ ∀ d ∈ ds, HexDigit d› ⟨ds1, _, hr', l1, hd1⟩
  · -- not a lead surrogate
    refine ⟨by rx6_keep, ?_⟩
    rw [if_neg (by decide)]
    refine ⟨by rx6_at, ?_⟩
    rintro ⟨r1, lead, trail, hp⟩
    obtain ⟨ds2, hrest, l2, hd1, hd2, hl, ht, hL, hT⟩ := pair_split ‹r = _ ++ _› ‹_ = 4› hp
    rename_i s1 _ w _ _ _ _ _ hv hn _
    rw [hv, isLeadSurrogate_iff, ← hl] at hn
    exact hn hL
  · -- no second group of four hexadecimal digits
    refine ⟨by rx6_keep, ?_⟩
    rw [if_neg (by decide)]
    refine ⟨by rx6_at, ?_⟩
    rintro ⟨r1, lead, trail, hp⟩
    obtain ⟨ds2, hrest, l2, hd1, hd2, hl, ht, hL, hT⟩ := pair_split ‹r = _ ++ _› ‹_ = 4› hp
    have hx : _ = ds2 ++ r1 := List.cons.inj (List.cons.inj hrest).2 |>.2
    exact ‹¬∃ ds r1, _ = ds ++ r1 ∧ ds.length = 4 ∧ ∀ d ∈ ds, HexDigit d› ⟨ds2, r1, hx, l2, hd2⟩
  · -- the second value is not a trail surrogate
    refine ⟨by rx6_keep, ?_⟩
    rw [if_neg (by decide)]
    refine ⟨by rx6_at, ?_⟩
    rintro ⟨r1, lead, trail, hp⟩
    obtain ⟨ds2, hrest, l2, hd1, hd2, hl, ht, hL, hT⟩ := pair_split ‹r = _ ++ _› ‹_ = 4› hp
    have hx : _ = ds2 ++ r1 := List.cons.inj (List.cons.inj hrest).2 |>.2
    rename_i x4 _ _ _ _ s2 _ w1 w0 hx4 hw1 _ _ hv hn _
    rw [hx4] at hx
    have e := (List.append_inj hx (by rw [hw1, l2])).1
    subst e
    rw [hv, isTrailSurrogate_iff, ← ht] at hn
    exact hn hT
  · -- a surrogate pair
    rename_i s1 hk1 w2 hw2 hd2 hv1 hc1 x3 hat3 hat2 hr hat1 s2 hk2 w1 w0 hx3 hw1 hd1 hat0 hv2 hc2
    rw [hv1, isLeadSurrogate_iff] at hc1
    rw [hv2, isTrailSurrogate_iff] at hc2
    refine ⟨by rx6_keep, ?_⟩
    rw [if_pos rfl]
    refine ⟨w0, mvHex w2, mvHex w1, ⟨w2, w1, by rw [hr, hx3], hw2, hw1, hd2, hd1, rfl, rfl, hc1, hc2⟩,
      BAt.of_eq hat0 rfl rfl rfl rfl rfl, ?_⟩
    show combineSurrogatePair s1.lastIntValue s2.lastIntValue = _
    rw [hv1, hv2, combine_eq hc1 hc2]
  · -- `\` not followed by `u`
    refine ⟨by rx6_keep, ?_⟩
    rw [if_neg (by decide)]
    refine ⟨by rx6_at, ?_⟩
    rintro ⟨r1, lead, trail, hp⟩
    obtain ⟨ds2, hrest, l2, hd1, hd2, hl, ht, hL, hT⟩ := pair_split ‹r = _ ++ _› ‹_ = 4› hp
    have hx := (List.cons.inj hrest).2
    rename_i hne _
    rw [hx] at hne
    exact hne rfl
  · -- no `\`
    refine ⟨by rx6_keep, ?_⟩
    rw [if_neg (by decide)]
    refine ⟨by rx6_at, ?_⟩
    rintro ⟨r1, lead, trail, hp⟩
    obtain ⟨ds2, hrest, l2, hd1, hd2, hl, ht, hL, hT⟩ := pair_split ‹r = _ ++ _› ‹_ = 4› hp
    rename_i hne _
    rw [hrest] at hne
    exact hne rfl

end DL.Rx
