import DL.Lemmas.CFSwitch3

/-! Soundness invariant: `switch`. -/
namespace DL.CF

/-- the end `visit_switch_stmt` gives the statement -/
def switchE (info : Info) (cs : Cases) : End :=
  match (switchEnd info cs).2 with
  | some e => if (switchEnd info cs).1 then e else .cont
  | none => .cont

def switchFin (p : Nat) (prev : Option End) (e : End) (a : A) : A :=
  if e.isForced then markAsEnd p e a else (markAsEnd p e a).setEnd prev

theorem visitStmt_switch (p : Nat) (d : Kids) (cs : Cases) (a : A) :
    visitStmt (.switchS p d cs) a =
      switchFin p a.sc.end_ (switchE (visitCases cs (visitKids d (flagA a p .other))).info cs)
        (visitCases cs (visitKids d (flagA a p .other))) := rfl

theorem switch_compl (ls : List Id) (p : Nat) (d : Kids) (cs : Cases) (hd : d.pure = true) :
    let c := Stmt.compl ls (.switchS p d cs)
    c.n = (cs.compl.1.n || !cs.compl.2 || cs.compl.1.b) ∧ c.b = false ∧ c.c = cs.compl.1.c ∧ c.hasCl = cs.compl.1.hasCl ∧
    c.t = (d.mayThrow || cs.testsMayThrow || cs.compl.1.t) := by
  have hdp := Kids.compl_pure d hd
  refine ⟨?_, ?_, ?_, ?_, ?_⟩
  · simp [Stmt.compl, hdp]
  · simp [Stmt.compl, hdp]
  · simp [Stmt.compl, hdp]
  · simp only [Stmt.compl, seq_hasCl, hdp, pureCompl_hasCl, seq_n, pureCompl_n]
    simp [Compl.hasCl, Compl.union, Compl.guard]
    cases cs.compl.2 <;> simp [Compl.normal]
  · simp [Stmt.compl, hdp]

theorem switchE_cases (info : Info) (live : Bool) (cs : Cases) (hm : cs.marks info live) :
    switchE info cs = .cont ∨
    ((switchE info cs).isForced = true ∧ (live && (cs.compl.1.n || !cs.compl.2 || cs.compl.1.b)) = false) := by
  unfold switchE
  cases hfe : (switchEnd info cs).2 with
  | none => exact Or.inl rfl
  | some e =>
    simp only
    by_cases hd : (switchEnd info cs).1 = true
    · rw [if_pos hd]
      right
      have := switchEnd_forced info live cs e hm hfe
      rw [switchEnd_default] at hd
      refine ⟨this.1, ?_⟩
      have h2 := this.2
      rw [hd]
      revert h2; cases live <;> cases cs.compl.1.n <;> cases cs.compl.1.b <;> simp
    · rw [if_neg hd]; exact Or.inl rfl

theorem switch_ok (live : Bool) (ls : List Id) (p : Nat) (d : Kids) (cs : Cases) (a : A) (hd : d.pure = true)
    (hpre : Pre live (p :: (d.positions ++ cs.positions)) a)
    (ihk : ∀ x, PreK d.positions x → PostK d.upos d.positions d.inner d.mayThrow x (visitKids d x))
    (ihc : ∀ a0, Pre live cs.positions a0 → PostC live cs a0 (visitCases cs a0)) :
    PostS live ls (.switchS p d cs) a (visitStmt (.switchS p d cs) a) := by
  rw [visitStmt_switch]
  have hk := ihk _ (Prefix.preK hpre)
  generalize visitKids d (flagA a p .other) = a1 at hk ⊢
  have hx := Prefix.ofK hpre hk
  have he1 : a1.sc.end_ = a.sc.end_ := hk.end_
  have hc := ihc a1 ⟨fun h => hpre.hs (by rw [← he1]; exact h), hx.hfresh, hx.ndr⟩
  generalize visitCases cs a1 = a2 at hc ⊢
  have he2 : a2.sc.end_ = a.sc.end_ := hc.end_.trans he1
  obtain ⟨hn, hb0, hc0, hl0, ht0⟩ := switch_compl ls p d cs hd
  have hE := switchE_cases a2.info live cs hc.marks
  generalize switchE a2.info cs = e at hE
  rw [← hn] at hE
  have hdeadE : stopsEnd (some e) = true → (live && (Stmt.compl ls (.switchS p d cs)).n) = false := by
    intro h
    rcases hE with h' | h'
    · subst h'; simp at h
    · exact h'.2
  have hs2 : stopsEnd a2.sc.end_ = true → live = false := fun h => hpre.hs (by rw [← he2]; exact h)
  have hinfo : (switchFin p a.sc.end_ e a2).info = (markAsEnd p e a2).info := by
    unfold switchFin; split <;> rfl
  have hfb : (switchFin p a.sc.end_ e a2).sc.foundBreak = a2.sc.foundBreak := by
    unfold switchFin; split <;> simp
  have hfc : (switchFin p a.sc.end_ e a2).sc.foundContinue = a2.sc.foundContinue := by
    unfold switchFin; split <;> simp
  have hmt : (switchFin p a.sc.end_ e a2).sc.mayThrow = a2.sc.mayThrow := by
    unfold switchFin; split <;> simp
  have hdu : ∀ q, q ∈ d.upos → q ≠ p ∧ q ∉ cs.positions := fun q hq =>
    ⟨fun e => hx.pk (e ▸ Kids.upos_sub d q hq), fun h => hx.disj q (Kids.upos_sub d q hq) h⟩
  have hcu : ∀ q, q ∈ cs.upos → q ≠ p ∧ q ∉ d.positions := fun q hq =>
    ⟨fun e => hx.pr (e ▸ Cases.upos_sub cs q hq), fun h => hx.disj q h (Cases.upos_sub cs q hq)⟩
  have reach_false : ∀ q, q ∉ cs.positions → cs.reach q = false := fun q h => by
    cases hr : cs.reach q with
    | false => rfl
    | true => exact absurd (cs.reach_mem q hr) h
  have inner_false : ∀ q, q ∉ cs.positions → cs.inner q = false := fun q h => by
    cases hr : cs.inner q with
    | false => rfl
    | true => exact absurd (cs.inner_mem q hr) h
  refine ⟨⟨?_, ?_, ?_, ?_, ?_, ?_, ?_, ?_, ?_, ?_, ?_⟩, ?_⟩
  · intro hst
    unfold switchFin at hst
    by_cases hf : e.isForced = true
    · rw [if_pos hf, markAsEnd_stops] at hst
      cases h2 : stopsEnd a2.sc.end_ with
      | true => simp [hs2 h2]
      | false => rw [h2] at hst; exact hdeadE (by simpa using hst)
    · rw [if_neg hf] at hst
      simp only [setEnd_end] at hst
      simp [hpre.hs hst]
  · simp [hb0]
  · intro hh; rw [hfc]; apply hc.p2c
    rw [hc0] at hh
    have := cs.compl_cont
    revert hh this; cases live <;> cases cs.compl.1.c <;> simp
  · intro hh; rw [hfb, hc.fb, hx.hb]; exact hh
  · intro hh; rw [hfc]; exact hc.monoC (hx.hc hh)
  · intro hh; rw [hfc]; apply hc.p2c
    rw [hl0] at hh
    have := cs.compl_cont
    revert hh this; cases live <;> cases cs.compl.1.hasCl <;> simp
  · intro q hq hu
    rw [hinfo, markAsEnd_ur] at hu
    simp only [Stmt.upos, List.mem_cons, List.mem_append] at hq
    simp only [Stmt.reach, Kids.flowReach_pure d q hd, Bool.or_false, evalCompl_eq, Kids.compl_pure d hd, pureCompl_n, Bool.true_and]
    rcases hq with rfl | hq | hq
    · have := hx.dead hpre _ (ur_eq_of_info_eq (hc.frame q hx.pr)) hu
      simp [this]
    · simp [(hdu q hq).1, reach_false q (hdu q hq).2]
    · have := hc.p3 q hq hu
      revert this; cases live <;> simp [(hcu q hq).1]
  · intro q hq hu
    rw [hinfo, markAsEnd_ur] at hu
    simp only [Stmt.upos, List.mem_cons, List.mem_append] at hq
    simp only [Stmt.inner]
    rcases hq with rfl | hq | hq
    · simp [Kids.inner_false d q hx.pk, inner_false q hx.pr]
    · rw [ur_eq_of_info_eq (hc.frame q (hdu q hq).2)] at hu
      simp [hk.p3 q hq hu, inner_false q (hdu q hq).2]
    · simp [hc.p3i q hq hu, Kids.inner_false d q (hcu q hq).2]
  · intro q hq
    simp only [Stmt.positions, List.mem_cons, List.mem_append, not_or] at hq
    rw [hinfo, markAsEnd_info_other _ _ _ _ hq.1, hc.frame q hq.2.2]
    exact hx.hi q hq.1 hq.2.1
  · intro hh; rw [hmt]; exact hc.mt (hx.hmt hh)
  · intro hh
    rw [hmt]
    rw [ht0] at hh
    cases hkt : (live && d.mayThrow) with
    | true => exact hc.mt (hx.pT hkt)
    | false =>
      apply hc.pT
      have := cs.compl_t
      revert hh hkt this; cases live <;> cases d.mayThrow <;> cases cs.testsMayThrow <;> cases cs.compl.1.t <;> simp
  · intro _ hst
    simp only [Stmt.pos] at hst
    rw [hinfo] at hst
    rcases markAsEnd_self_stops _ _ _ hst with h | h
    · simp [hs2 h]
    · exact hdeadE h

end DL.CF
