import DL.Lemmas.CFTry3

/-! Soundness invariant, `try`: the finalizer phase. -/
namespace DL.CF

theorem tryFinalizer_true (fp : Nat) (f : Stmts) (prev : Option End) (a2 : A) :
    tryFinalizer true fp f prev a2 =
      finallyJoin a2.sc.end_ (withChild .finally_ fp (fun x => blockTail fp (visitStmts f x)) (a2.setEnd prev)) := rfl

theorem finallyCompl_true (R1 F : Compl) :
    (finallyCompl R1 true F).n = (R1.any && (F.n && R1.n)) ∧
    (finallyCompl R1 true F).b = (R1.any && ((F.n && R1.b) || F.b)) ∧
    (finallyCompl R1 true F).c = (R1.any && ((F.n && R1.c) || F.c)) ∧
    (finallyCompl R1 true F).hasCl = (R1.any && ((F.n && R1.hasCl) || F.hasCl)) ∧
    (finallyCompl R1 true F).t = (R1.any && ((F.n && R1.t) || F.t)) := by
  simp only [finallyCompl, if_true]
  refine ⟨by simp, by simp, by simp, by simp, by simp⟩

theorem finalizer_ok (live : Bool) (us ps : List Nat) (R1 : Compl) (rx ix : Nat → Bool) (fp : Nat) (f : Stmts) (a a2 : A)
    (hx : PostL live us ps R1 rx ix a a2)
    (hs0 : stopsEnd a.sc.end_ = true → live = false)
    (hfresh : ∀ q ∈ fp :: f.positions, a.info.endAt q = none) (hnq : (fp :: f.positions).Nodup)
    (hdisj : ∀ q, q ∈ ps → q ∈ fp :: f.positions → False)
    (hus : ∀ q, q ∈ us → q ∈ ps) (hrx : ∀ q, q ∉ ps → rx q = false) (hix : ∀ q, q ∉ ps → ix q = false)
    (ih : ∀ a0, Pre (live && R1.any) f.positions a0 →
      PostL (live && R1.any) f.upos f.positions f.compl f.reach f.inner a0 (visitStmts f a0)) :
    PostL live (us ++ f.upos) (ps ++ (fp :: f.positions)) (finallyCompl R1 true f.compl)
      (fun q => rx q || (R1.any && f.reach q)) (fun q => ix q || f.inner q) a
      (tryFinalizer true fp f a.sc.end_ a2) := by
  rw [tryFinalizer_true]
  have hprec : Pre (live && R1.any) (fp :: f.positions) (childA .finally_ (a2.setEnd a.sc.end_)) := by
    refine childA_pre _ .finally_ _ _ ?_ ?_ hnq
    · intro h; simp only [setEnd_end] at h; simp [hs0 h]
    · intro q hq
      simp only [setEnd_info]
      rw [endAt_eq_of_info_eq (hx.frame q (fun h => hdisj q h hq))]
      exact hfresh q hq
  have hy := blockKid_ok _ fp f _ hprec ih
  obtain ⟨wur, winfo, wfc, wmt, wfb1, wfb2, wstop⟩ :=
    withChild_mark .finally_ (Or.inr rfl) fp (fun x => blockTail fp (visitStmts f x)) (a2.setEnd a.sc.end_)
  generalize blockTail fp (visitStmts f (childA .finally_ (a2.setEnd a.sc.end_))) = c at hy wur winfo wfc wmt wfb1 wfb2 wstop
  generalize withChild .finally_ fp (fun x => blockTail fp (visitStmts f x)) (a2.setEnd a.sc.end_) = w
    at wur winfo wfc wmt wfb1 wfb2 wstop
  obtain ⟨jfb, jfc, jmt⟩ := finallyJoin_sc a2.sc.end_ w
  have jinfo := finallyJoin_info a2.sc.end_ w
  obtain ⟨hn, hb, hc, hl, ht⟩ := finallyCompl_true R1 f.compl
  have hfu : ∀ q, q ∈ f.upos → q ∈ fp :: f.positions := fun q hq => List.mem_cons_of_mem _ (Stmts.upos_sub f q hq)
  have hfr_false : ∀ q, q ∉ fp :: f.positions → f.reach q = false := fun q hq =>
    f.reach_false q (fun h => hq (List.mem_cons_of_mem _ h))
  have hfi_false : ∀ q, q ∉ fp :: f.positions → f.inner q = false := fun q hq =>
    f.inner_false q (fun h => hq (List.mem_cons_of_mem _ h))
  refine ⟨?_, ?_, ?_, ?_, ?_, ?_, ?_, ?_, ?_, ?_, ?_⟩
  · intro hst
    rw [hn]
    rcases finallyJoin_stops _ _ hst with s | s
    · have := hx.p1 s
      revert this; cases live <;> cases R1.n <;> simp
    · rcases wstop s with h | h
      · simp only [setEnd_end] at h; simp [hs0 h]
      · have := hy.p1 h
        revert this; cases live <;> cases R1.any <;> cases f.compl.n <;> simp
  · intro hh
    rw [hb] at hh; rw [jfb]
    cases h1 : (live && R1.b) with
    | true => exact wfb2 (by simp only [setEnd_foundBreak]; exact hx.p2 h1)
    | false =>
      apply wfb1; apply hy.p2
      revert hh h1; cases live <;> cases R1.b <;> cases R1.any <;> cases f.compl.n <;> simp
  · intro hh
    rw [hc] at hh; rw [jfc, wfc]
    cases h1 : (live && R1.c) with
    | true => simp only [setEnd_foundContinue]; rw [hx.p2c h1]; rfl
    | false =>
      have : c.sc.foundContinue = true := by
        apply hy.p2c
        revert hh h1; cases live <;> cases R1.c <;> cases R1.any <;> cases f.compl.n <;> simp
      rw [this]; simp
  · intro hh; rw [jfb]; exact wfb2 (by simp only [setEnd_foundBreak]; exact hx.monoB hh)
  · intro hh; rw [jfc, wfc]; simp only [setEnd_foundContinue]; rw [hx.monoC hh]; rfl
  · intro hh
    rw [hl] at hh; rw [jfc, wfc]
    cases h1 : (live && R1.hasCl) with
    | true => simp only [setEnd_foundContinue]; rw [hx.p2l h1]; rfl
    | false =>
      have : c.sc.foundContinue = true := by
        apply hy.p2l
        revert hh h1; cases live <;> cases R1.hasCl <;> cases R1.any <;> cases f.compl.n <;> simp
      rw [this]; simp
  · intro q hq hu
    rw [jinfo, wur] at hu
    rcases List.mem_append.mp hq with hq | hq
    · have hnq' : q ∉ fp :: f.positions := fun h => hdisj q (hus q hq) h
      rw [ur_eq_of_info_eq (hy.frame q hnq')] at hu
      simp only [childA, setEnd_info] at hu
      have := hx.p3 q hq hu
      simp only [hfr_false q hnq', Bool.and_false, Bool.or_false]; exact this
    · have hnp : q ∉ ps := fun h => hdisj q h (hfu q hq)
      have := hy.p3 q hq hu
      simp only [hrx q hnp, Bool.false_or]
      revert this; cases live <;> cases R1.any <;> simp
  · intro q hq hu
    rw [jinfo, wur] at hu
    rcases List.mem_append.mp hq with hq | hq
    · have hnq' : q ∉ fp :: f.positions := fun h => hdisj q (hus q hq) h
      rw [ur_eq_of_info_eq (hy.frame q hnq')] at hu
      simp only [childA, setEnd_info] at hu
      simp [hx.p3i q hq hu, hfi_false q hnq']
    · have hnp : q ∉ ps := fun h => hdisj q h (hfu q hq)
      simp [hy.p3i q hq hu, hix q hnp]
  · intro q hq
    simp only [List.mem_append, List.mem_cons, not_or] at hq
    rw [jinfo, winfo q hq.2.1, hy.frame q (by simp only [List.mem_cons, not_or]; exact hq.2)]
    simp only [childA, setEnd_info]
    exact hx.frame q hq.1
  · intro hh; rw [jmt, wmt]; simp only [setEnd_mayThrow]; rw [hx.monoT hh]; rfl
  · intro hh
    rw [ht] at hh; rw [jmt, wmt]
    cases h1 : (live && R1.t) with
    | true => simp only [setEnd_mayThrow]; rw [hx.pT h1]; rfl
    | false =>
      have : c.sc.mayThrow = true := by
        apply hy.pT
        revert hh h1; cases live <;> cases R1.t <;> cases R1.any <;> cases f.compl.n <;> simp
      rw [this]; simp

end DL.CF
