import DL.Lemmas.CFClaims4

/-! The claims of the rule layers: `for`, `for-in/of`. -/
namespace DL.CF

theorem for_claims (ls : List Id) (p : Nat) (i u t : Kids) (hasTest tt : Bool) (body : Stmt) (a : A)
    (hf : (Stmt.forS p i u t hasTest tt body).inF = true)
    (hpre : PreK (p :: ((i.positions ++ (u.positions ++ t.positions)) ++ body.positions)) a)
    (ihi : ∀ x, PreK i.positions x → KClaims i (visitKids i x).info)
    (ihu : ∀ x, PreK u.positions x → KClaims u (visitKids u x).info)
    (iht : ∀ x, PreK t.positions x → KClaims t (visitKids t x).info)
    (ih : ∀ x, PreK body.positions x → SClaims body [] (visitStmt body x).info) :
    SClaims (.forS p i u t hasTest tt body) ls (visitStmt (.forS p i u t hasTest tt body) a).info := by
  have own := own_claim (.forS p i u t hasTest tt body) ls a hf hpre
  have hsp := Split.of hpre.nodup
  have hpre0 : PreK ((i.positions ++ (u.positions ++ t.positions)) ++ body.positions) (flagA a p .other) :=
    (hpre.sub (fun q hq => List.mem_cons_of_mem _ hq) (List.nodup_cons.mp hpre.nodup).2).flag p .other
  have hv : visitStmt (.forS p i u t hasTest tt body) a =
      withChild .loop body.pos (fun x => forTail p body.pos body.isDeclOrExpr hasTest tt (visitStmt body x))
        (visitKids t (visitKids u (visitKids i (flagA a p .other)))) := by
    simp [visitStmt, flagA]
  have hpreK := hpre0.left
  have hi := ihi _ hpreK.left
  have fr1 : ∀ q, q ∉ i.positions → (visitKids i (flagA a p .other)).info q = (flagA a p .other).info q :=
    fun q hq => Kids.info_frame i _ q hq
  generalize visitKids i (flagA a p .other) = x1 at hv hi fr1
  have hpre1 : PreK (u.positions ++ t.positions) x1 := hpreK.right fr1
  have hu := ihu _ hpre1.left
  have fr2 : ∀ q, q ∉ u.positions → (visitKids u x1).info q = x1.info q := fun q hq => Kids.info_frame u _ q hq
  generalize visitKids u x1 = x2 at hv hu fr2
  have hpre2 : PreK t.positions x2 := hpre1.right fr2
  have ht := iht _ hpre2
  have fr3 : ∀ q, q ∉ t.positions → (visitKids t x2).info q = x2.info q := fun q hq => Kids.info_frame t _ q hq
  generalize visitKids t x2 = x3 at hv ht fr3
  have hiu : ∀ q, q ∈ i.positions → q ∉ u.positions ∧ q ∉ t.positions := fun q hq =>
    ⟨fun h => hpreK.disj q hq (List.mem_append.mpr (Or.inl h)), fun h => hpreK.disj q hq (List.mem_append.mpr (Or.inr h))⟩
  have hut : ∀ q, q ∈ u.positions → q ∉ t.positions := fun q hq h => hpre1.disj q hq h
  have hkb : ∀ q, q ∈ body.positions → q ∉ i.positions ∧ q ∉ u.positions ∧ q ∉ t.positions := fun q hq =>
    ⟨fun h => hsp.disj q (by simp [h]) hq, fun h => hsp.disj q (by simp [h]) hq, fun h => hsp.disj q (by simp [h]) hq⟩
  have hpreb : PreK body.positions x3 := hpre0.move (fun q hq => List.mem_append.mpr (Or.inr hq)) hsp.ndb
    (fun q hq => by rw [fr3 q (hkb q hq).2.2, fr2 q (hkb q hq).2.1, fr1 q (hkb q hq).1])
  obtain ⟨hbody, hfr⟩ := loopStep body [p] (forTail p body.pos body.isDeclOrExpr hasTest tt) x3 hpreb
    (by intro q hq; simp only [List.mem_singleton] at hq; subst hq; exact hsp.pb)
    (fun y q h h2 => forTail_info _ _ _ _ _ _ _ (by simpa using h2) h) (fun y q => forTail_ur _ _ _ _ _ _ _) ih
  rw [← hv] at hbody hfr
  have hb' := hbody (visitStmt (.forS p i u t hasTest tt body) a).info (fun _ _ _ => rfl) rfl
  have hkp : ∀ q, q ∈ i.positions ++ (u.positions ++ t.positions) → q ∉ body.positions ∧ q ∉ [p] := fun q hq =>
    ⟨fun h => hsp.disj q hq h, by simp only [List.mem_singleton]; exact fun e => hsp.pk (e ▸ hq)⟩
  have hi' : KClaims i (visitStmt (.forS p i u t hasTest tt body) a).info := by
    refine hi.transport (fun q hq => ?_)
    have := hkp q (by simp [hq])
    rw [hfr q this.1 this.2, fr3 q (hiu q hq).2, fr2 q (hiu q hq).1]
  have hu' : KClaims u (visitStmt (.forS p i u t hasTest tt body) a).info := by
    refine hu.transport (fun q hq => ?_)
    have := hkp q (by simp [hq])
    rw [hfr q this.1 this.2, fr3 q (hut q hq)]
  have ht' : KClaims t (visitStmt (.forS p i u t hasTest tt body) a).info := by
    refine ht.transport (fun q hq => ?_)
    have := hkp q (by simp [hq])
    rw [hfr q this.1 this.2]
  exact (own.append ((hi'.append (hu'.append ht')).append hb')).mono
    (fun q hq => by simpa [Stmt.stopViol, List.append_assoc] using hq)
    (fun c hc => by simpa [Stmt.swCases, List.append_assoc] using hc) (fun g hg => by simpa [Stmt.getters, List.append_assoc] using hg)

theorem forInOf_claims (ls : List Id) (p : Nat) (l r : Kids) (body : Stmt) (a : A)
    (hf : (Stmt.forInOf p l r body).inF = true)
    (hpre : PreK (p :: ((l.positions ++ r.positions) ++ body.positions)) a)
    (ihl : ∀ x, PreK l.positions x → KClaims l (visitKids l x).info)
    (ihr : ∀ x, PreK r.positions x → KClaims r (visitKids r x).info)
    (ih : ∀ x, PreK body.positions x → SClaims body [] (visitStmt body x).info) :
    SClaims (.forInOf p l r body) ls (visitStmt (.forInOf p l r body) a).info := by
  have own := own_claim (.forInOf p l r body) ls a hf hpre
  have hsp := Split.of hpre.nodup
  have hpre0 : PreK ((l.positions ++ r.positions) ++ body.positions) (flagA a p .other) :=
    (hpre.sub (fun q hq => List.mem_cons_of_mem _ hq) (List.nodup_cons.mp hpre.nodup).2).flag p .other
  have hv : visitStmt (.forInOf p l r body) a =
      withChild .loop body.pos (fun x => forInOfTail body.pos (visitStmt body x))
        (visitKids r (visitKids l (flagA a p .other))) := by
    simp [visitStmt, flagA]
  have hpreK := hpre0.left
  have hl := ihl _ hpreK.left
  have fr1 : ∀ q, q ∉ l.positions → (visitKids l (flagA a p .other)).info q = (flagA a p .other).info q :=
    fun q hq => Kids.info_frame l _ q hq
  generalize visitKids l (flagA a p .other) = x1 at hv hl fr1
  have hpre1 : PreK r.positions x1 := hpreK.right fr1
  have hr := ihr _ hpre1
  have fr2 : ∀ q, q ∉ r.positions → (visitKids r x1).info q = x1.info q := fun q hq => Kids.info_frame r _ q hq
  generalize visitKids r x1 = x2 at hv hr fr2
  have hkb : ∀ q, q ∈ body.positions → q ∉ l.positions ∧ q ∉ r.positions := fun q hq =>
    ⟨fun h => hsp.disj q (by simp [h]) hq, fun h => hsp.disj q (by simp [h]) hq⟩
  have hpreb : PreK body.positions x2 := hpre0.move (fun q hq => List.mem_append.mpr (Or.inr hq)) hsp.ndb
    (fun q hq => by rw [fr2 q (hkb q hq).2, fr1 q (hkb q hq).1])
  obtain ⟨hbody, hfr⟩ := loopStep body [] (forInOfTail body.pos) x2 hpreb (by simp)
    (fun y q h _ => forInOfTail_info _ _ _ h) (fun y q => forInOfTail_ur _ _ _) ih
  rw [← hv] at hbody hfr
  have hb' := hbody (visitStmt (.forInOf p l r body) a).info (fun _ _ _ => rfl) rfl
  have hl' : KClaims l (visitStmt (.forInOf p l r body) a).info := by
    refine hl.transport (fun q hq => ?_)
    rw [hfr q (fun h => hsp.disj q (by simp [hq]) h) (by simp), fr2 q (fun h => hpreK.disj q hq h)]
  have hr' : KClaims r (visitStmt (.forInOf p l r body) a).info := by
    refine hr.transport (fun q hq => ?_)
    rw [hfr q (fun h => hsp.disj q (by simp [hq]) h) (by simp)]
  exact (own.append ((hl'.append hr').append hb')).mono
    (fun q hq => by simpa [Stmt.stopViol, List.append_assoc] using hq)
    (fun c hc => by simpa [Stmt.swCases, List.append_assoc] using hc) (fun g hg => by simpa [Stmt.getters, List.append_assoc] using hg)

end DL.CF
