import DL.Lemmas.Vms2
/-!
# The effect of one fix on the item it is applied to (M-VMS)

* what a diagnostic says about its item (`imp_all_inv`, …);
* `fix_local_lt`: the items replacing the fixed one report strictly fewer diagnostics (under the *old* predicates);
* `importValue_fix_subset` / `exportValue_fix_subset`: a fix adds no value names;
* `importValue_fix_lost` / `exportValue_fix_lost`: the value names a fix removes were "only used in types".
-/
namespace DL.Vms

/-! ## what a diagnostic says about its item -/

theorem gDiags_all_inv (p t : α → Bool) (k : Nat) (l : List α) (k' : Nat) (h : ⟨k', .all⟩ ∈ gDiags p t k l) :
    l.length = l.countP p + l.countP t := by
  unfold gDiags at h
  simp only [usageIdx_length, ← List.countP_eq_length_filter, beq_iff_eq] at h
  split at h
  · assumption
  · simp at h

theorem gDiags_spec_inv (p t : α → Bool) (k : Nat) (l : List α) (k' i : Nat) (h : ⟨k', .spec i⟩ ∈ gDiags p t k l) :
    l.length ≠ l.countP p + l.countP t ∧ ∃ a, l[i]? = some a ∧ p a = true := by
  unfold gDiags at h
  simp only [usageIdx_length, ← List.countP_eq_length_filter, beq_iff_eq] at h
  split at h
  · simp at h
  · rename_i hne
    refine ⟨hne, ?_⟩
    simp only [List.mem_map, Diag.mk.injEq, Target.spec.injEq] at h
    rcases h with ⟨j, hj, _, rfl⟩
    have := (mem_usageIdx p l 0 j).1 hj
    simpa using this.2

theorem iP_disjoint (hi : Nat → Bool) : ∀ s : ISpec, iP hi s = true → s.typed = false := by
  intro s h; simp only [iP, Bool.and_eq_true, Bool.not_eq_true'] at h; exact h.1

theorem eP_disjoint (he : Nat → Bool) : ∀ s : ESpec, eP he s = true → s.inlineType = false := by
  intro s h; simp only [eP, Bool.and_eq_true, Bool.not_eq_true'] at h; exact h.1

theorem imp_inv (m : Module) (k : Nat) (D : IDecl) (d : Diag) (h : d ∈ importDiags m k D) :
    D.typeOnly = false ∧ D.specs.isEmpty = false ∧ d ∈ gDiags (iP m.hasImportIdent) (·.typed) k D.specs := by
  rw [importDiags_eq] at h
  split at h
  · simp at h
  · rename_i hc
    simp only [Bool.or_eq_true, not_or, Bool.not_eq_true] at hc
    exact ⟨hc.1, hc.2, h⟩

theorem exp_inv (m : Module) (k : Nat) (D : EDecl) (d : Diag) (h : d ∈ exportDiags m k D) :
    D.typeOnly = false ∧ D.specs.isEmpty = false ∧ D.hasSrc = false ∧
      d ∈ gDiags (eP m.hasExportIdent) (·.inlineType) k D.specs := by
  rw [exportDiags_eq] at h
  split at h
  · simp at h
  · rename_i hc
    simp only [Bool.or_eq_true, not_or, Bool.not_eq_true] at hc
    exact ⟨hc.1.1, hc.1.2, hc.2, h⟩

/-! ## generic count changes -/

theorem gCnt_modify (p t : α → Bool) (f : α → α) (l : List α) (i : Nat) (a : α) (h : l[i]? = some a)
    (hp : p a = true) (ht : t a = false) (hp' : p (f a) = false) (ht' : t (f a) = true)
    (hne : l.length ≠ l.countP p + l.countP t) :
    gCnt p t (l.modify i f) + 1 = gCnt p t l := by
  have h1 := countP_modify p f l i a h
  have h2 := countP_modify t f l i a h
  simp only [hp, ht, hp', ht', if_true, Bool.false_eq_true, if_false] at h1 h2
  unfold gCnt
  rw [List.length_modify, if_neg hne, if_neg (by omega)]
  omega

theorem gCnt_eraseIdx (p t : α → Bool) (l : List α) (i : Nat) (a : α) (h : l[i]? = some a)
    (hp : p a = true) (ht : t a = false) (hne : l.length ≠ l.countP p + l.countP t) :
    gCnt p t (l.eraseIdx i) + 1 = gCnt p t l := by
  have h1 := countP_eraseIdx' p l i a h
  have h2 := countP_eraseIdx' t l i a h
  have h3 := length_eraseIdx' l i a h
  simp only [hp, ht, if_true, Bool.false_eq_true, if_false] at h1 h2
  unfold gCnt
  rw [if_neg hne, if_neg (by omega)]
  omega

theorem eraseIdx_nonempty (p t : α → Bool) (hd : ∀ a, p a = true → t a = false) (l : List α) (i : Nat) (a : α)
    (h : l[i]? = some a) (hp : p a = true) (hne : l.length ≠ l.countP p + l.countP t) :
    (l.eraseIdx i).isEmpty = false := by
  have h1 := countP_eraseIdx' p l i a h
  have h2 := countP_eraseIdx' t l i a h
  have h3 := length_eraseIdx' l i a h
  have h4 := countP_add_countP_le p t hd l
  simp only [hp, hd a hp, if_true, Bool.false_eq_true, if_false] at h1 h2
  cases h5 : l.eraseIdx i with
  | nil => rw [h5] at h3; simp at h3; omega
  | cons _ _ => rfl

/-! ## the fixed item reports less -/

theorem typed_setInline (s : ISpec) (h : (s.kind == SpecKind.named) = true) :
    ({ s with inlineType := true } : ISpec).typed = true := by
  simp [ISpec.typed, h]

theorem fix_local_lt (m : Module) (k : Nat) (it : Item) (d : Diag) (h : d ∈ itemDiags m k it) :
    itemsCnt m.hasImportIdent m.hasExportIdent (fixItem it d.target) <
      itemCnt m.hasImportIdent m.hasExportIdent it := by
  have hpos : 0 < itemCnt m.hasImportIdent m.hasExportIdent it := by
    rw [← itemDiags_length m k it]; exact List.length_pos_of_mem h
  obtain ⟨k', t⟩ := d
  cases it with
  | imp D =>
    obtain ⟨h1, h2, h3⟩ := imp_inv m k D _ h
    cases t with
    | all => simpa [fixItem, itemsCnt, itemCnt, iCnt] using hpos
    | spec i =>
      obtain ⟨hne, s, hs, hps⟩ := gDiags_spec_inv _ _ _ _ _ _ h3
      have hts := iP_disjoint _ s hps
      simp only [fixItem, hs]
      split
      · rename_i hk
        have := gCnt_modify (iP m.hasImportIdent) (·.typed) (fun s => { s with inlineType := true }) D.specs i s hs
          hps hts (by simp [iP, typed_setInline s hk]) (typed_setInline s hk) hne
        have hemp : (setTyped i D.specs).isEmpty = false := by
          cases hh : D.specs with
          | nil => simp [hh] at h2
          | cons a r => cases i <;> simp [setTyped]
        unfold setTyped at hemp
        simp only [itemsCnt, itemCnt, iCnt, h1, h2, hemp, Bool.or_self, Bool.false_eq_true, if_false, setTyped] at this ⊢
        omega
      · have := gCnt_eraseIdx (iP m.hasImportIdent) (·.typed) D.specs i s hs hps hts hne
        have hemp := eraseIdx_nonempty (iP m.hasImportIdent) (·.typed) (iP_disjoint _) D.specs i s hs hps hne
        simp only [itemsCnt, itemCnt, iCnt, h1, h2, hemp, Bool.or_self, Bool.false_eq_true, if_false,
          Bool.true_or, if_true] at this ⊢
        omega
  | exp D =>
    obtain ⟨h1, h2, hsrc, h3⟩ := exp_inv m k D _ h
    cases t with
    | all => simpa [fixItem, itemsCnt, itemCnt, eCnt] using hpos
    | spec i =>
      obtain ⟨hne, s, hs, hps⟩ := gDiags_spec_inv _ _ _ _ _ _ h3
      have hts := eP_disjoint _ s hps
      have := gCnt_modify (eP m.hasExportIdent) (·.inlineType) (fun s => { s with inlineType := true }) D.specs i s hs
        hps hts (by simp [eP]) rfl hne
      have hemp : (setTypedE i D.specs).isEmpty = false := by
        cases hh : D.specs with
        | nil => simp [hh] at h2
        | cons a r => cases i <;> simp [setTypedE]
      unfold setTypedE at hemp
      simp only [fixItem, itemsCnt, itemCnt, eCnt, h1, h2, hsrc, hemp, Bool.or_self, Bool.false_eq_true, if_false,
        setTypedE] at this ⊢
      omega

/-! ## a fix adds no value names -/

theorem importValue_fix_subset (it : Item) (t : Target) :
    ∀ x ∈ importValue (fixItem it t), x ∈ importValue [it] := by
  intro x hx
  cases it with
  | exp D => cases t <;> simp [fixItem] at hx
  | imp D =>
    cases t with
    | all =>
      simp only [fixItem] at hx
      have := (mem_importValue_imp _ _).1 hx
      simp at this
    | spec i =>
      simp only [fixItem] at hx
      split at hx
      · exact hx
      · rename_i s hs
        split at hx
        · obtain ⟨h1, s', hs', hty, hn⟩ := (mem_importValue_imp _ _).1 hx
          refine (mem_importValue_imp _ _).2 ⟨h1, ?_⟩
          rcases mem_of_mem_modify _ _ _ s' hs' with hm | ⟨c, hc, rfl⟩
          · exact ⟨s', hm, hty, hn⟩
          · refine ⟨c, hc, ?_, hn⟩
            simp only [ISpec.typed, Bool.and_true] at hty
            simp [ISpec.typed, hty]
        · rw [importValue_cons, List.mem_append] at hx
          rcases hx with hx | hx
          · have := (mem_importValue_imp _ _).1 hx
            simp at this
          · obtain ⟨h1, s', hs', hty, hn⟩ := (mem_importValue_imp _ _).1 hx
            exact (mem_importValue_imp _ _).2 ⟨h1, s', List.mem_of_mem_eraseIdx hs', hty, hn⟩

theorem exportValue_fix_subset (it : Item) (t : Target) :
    ∀ x ∈ exportValue (fixItem it t), x ∈ exportValue [it] := by
  intro x hx
  cases it with
  | imp D =>
    cases t with
    | all => simp [fixItem] at hx
    | spec i =>
      simp only [fixItem] at hx
      split at hx
      · exact hx
      · split at hx
        · simp at hx
        · rw [exportValue_cons] at hx; simp at hx
  | exp D =>
    cases t with
    | all =>
      simp only [fixItem] at hx
      have := (mem_exportValue_exp _ _).1 hx
      simp at this
    | spec i =>
      simp only [fixItem] at hx
      obtain ⟨h1, h2, s', hs', hty, hn⟩ := (mem_exportValue_exp _ _).1 hx
      refine (mem_exportValue_exp _ _).2 ⟨h1, h2, ?_⟩
      rcases mem_of_mem_modify _ _ _ s' hs' with hm | ⟨c, hc, rfl⟩
      · exact ⟨s', hm, hty, hn⟩
      · simp at hty

/-! ## the value names a fix removes were only used in types -/

theorem importValue_fix_lost (m : Module) (k : Nat) (it : Item) (d : Diag) (h : d ∈ itemDiags m k it) :
    ∀ x ∈ importValue [it], x ∈ importValue (fixItem it d.target) ∨ m.hasImportIdent x = false := by
  intro x hx
  obtain ⟨k', t⟩ := d
  cases it with
  | exp D => simp at hx
  | imp D =>
    obtain ⟨h1, h2, h3⟩ := imp_inv m k D _ h
    obtain ⟨_, s', hs', hty, hn⟩ := (mem_importValue_imp _ _).1 hx
    have hharmless : iP m.hasImportIdent s' = true → m.hasImportIdent x = false := by
      intro hp
      simp only [iP, Bool.and_eq_true, Bool.not_eq_true'] at hp
      rw [← hn]; exact hp.2
    cases t with
    | all =>
      have hlen := gDiags_all_inv _ _ _ _ _ h3
      rcases all_of_length_eq _ _ (iP_disjoint _) _ hlen s' hs' with hp | hp
      · exact Or.inr (hharmless hp)
      · simp [hty] at hp
    | spec i =>
      obtain ⟨hne, s, hs, hps⟩ := gDiags_spec_inv _ _ _ _ _ _ h3
      simp only [fixItem, hs]
      split
      · rcases mem_modify_or (fun s => { s with inlineType := true }) D.specs i s hs s' hs' with hm | rfl
        · exact Or.inl ((mem_importValue_imp _ _).2 ⟨h1, s', hm, hty, hn⟩)
        · exact Or.inr (hharmless hps)
      · rcases mem_eraseIdx_or D.specs i s hs s' hs' with hm | rfl
        · left
          rw [importValue_cons, List.mem_append]
          exact Or.inr ((mem_importValue_imp _ _).2 ⟨h1, s', hm, hty, hn⟩)
        · exact Or.inr (hharmless hps)

theorem exportValue_fix_lost (m : Module) (k : Nat) (it : Item) (d : Diag) (h : d ∈ itemDiags m k it) :
    ∀ x ∈ exportValue [it], x ∈ exportValue (fixItem it d.target) ∨ m.hasExportIdent x = false := by
  intro x hx
  obtain ⟨k', t⟩ := d
  cases it with
  | imp D => simp at hx
  | exp D =>
    obtain ⟨h1, h2, hsrc, h3⟩ := exp_inv m k D _ h
    obtain ⟨_, _, s', hs', hty, hn⟩ := (mem_exportValue_exp _ _).1 hx
    have hharmless : eP m.hasExportIdent s' = true → m.hasExportIdent x = false := by
      intro hp
      simp only [eP, Bool.and_eq_true, Bool.not_eq_true'] at hp
      rw [← hn]; exact hp.2
    cases t with
    | all =>
      have hlen := gDiags_all_inv _ _ _ _ _ h3
      rcases all_of_length_eq _ _ (eP_disjoint _) _ hlen s' hs' with hp | hp
      · exact Or.inr (hharmless hp)
      · simp [hty] at hp
    | spec i =>
      obtain ⟨hne, s, hs, hps⟩ := gDiags_spec_inv _ _ _ _ _ _ h3
      simp only [fixItem]
      rcases mem_modify_or (fun s => { s with inlineType := true }) D.specs i s hs s' hs' with hm | rfl
      · exact Or.inl ((mem_exportValue_exp _ _).2 ⟨h1, hsrc, s', hm, hty, hn⟩)
      · exact Or.inr (hharmless hps)

end DL.Vms
