import Lean
/-- normal forms of the symbolic validator states (`setPos`, `withInt`, `withStr` and their projections) -/
register_simp_attr st_simp
