import Lean
import DL.Lemmas.RxInd
import DL.Lemmas.RxFuReader

/-! # Fuel adequacy: continuation-passing rules and the symbolic-execution tactic -/
namespace DL.Rx
variable {E : Nat} {α β : Type}

theorem Fu.tail {i : Nat} {ne : Bool} {Q : α → Nat} {m : M α} (h : Fu E i ne (m >>= Pure.pure) Q) : Fu E i ne m Q := by
  rw [bind_pure'] at h; exact h

theorem Fu.bind_pure {i : Nat} {ne : Bool} {Q : β → Nat} {a : α} {f : α → M β} (h : Fu E i ne (f a) Q) :
    Fu E i ne ((Pure.pure a : M α) >>= f) Q := h

theorem Fu.bind_assoc {i : Nat} {ne : Bool} {γ : Type} {Q : γ → Nat} {a : M α} {f : α → M β} {g : β → M γ}
    (h : Fu E i ne (a >>= fun x => f x >>= g) Q) : Fu E i ne ((a >>= f) >>= g) Q := by
  rw [bind_assoc']; exact h

theorem Fu.bind_ite {i : Nat} {ne : Bool} {Q : β → Nat} {p : Prop} [Decidable p] {a b : M α} {g : α → M β}
    (ha : p → Fu E i ne (a >>= g) Q) (hb : ¬p → Fu E i ne (b >>= g) Q) :
    Fu E i ne ((if p then a else b) >>= g) Q := by
  rw [ite_bind]; exact Fu.ite ha hb

theorem Fu.bind_orM {i : Nat} {ne : Bool} {Q : β → Nat} {a b : M Bool} {g : Bool → M β}
    (h : Fu E i ne (a >>= fun x => if x = true then g true else b >>= g) Q) : Fu E i ne ((a <or> b) >>= g) Q := by
  rw [orM_bind]; exact h

theorem Fu.bind_andM {i : Nat} {ne : Bool} {Q : β → Nat} {a b : M Bool} {g : Bool → M β}
    (h : Fu E i ne (a >>= fun x => if x = true then b >>= g else g false) Q) : Fu E i ne ((a <and> b) >>= g) Q := by
  rw [andM_bind]; exact h

theorem Fu.bind_getSt {i : Nat} {ne : Bool} {Q : β → Nat} {g : St → M β} (h : ∀ s0, Fu E i ne (g s0) Q) :
    Fu E i ne (getSt >>= g) Q := fun s hs => h s s hs

theorem Fu.bind_modSt {i : Nat} {ne : Bool} {Q : β → Nat} {f : St → St} {g : Unit → M β}
    (hf : ∀ s, (f s).reader = s.reader) (h : Fu E i ne (g ()) Q) : Fu E i ne (modSt f >>= g) Q := by
  intro s hs
  refine h (f s) ⟨?_, ?_, ?_, ?_⟩
  · rw [hf]; exact hs.end_
  · rw [hf]; exact hs.look
  · rw [hf]; exact hs.pos
  · rw [hf]; exact hs.nonempty

theorem Fu.bind_setInt {i : Nat} {ne : Bool} {Q : β → Nat} {v : Int} {g : Unit → M β} (h : Fu E i ne (g ()) Q) :
    Fu E i ne (setInt v >>= g) Q := Fu.bind_modSt (fun _ => rfl) h

theorem Fu.bind_setStr {i : Nat} {ne : Bool} {Q : β → Nat} {v : List Nat} {g : Unit → M β} (h : Fu E i ne (g ()) Q) :
    Fu E i ne (setStr v >>= g) Q := Fu.bind_modSt (fun _ => rfl) h

/-- a look-ahead that yields `Some` proves the buffer non-empty -/
theorem Fu.bind_cpo {i : Nat} {ne : Bool} {Q : β → Nat} {k : Nat} {g : Option Nat → M β}
    (h : ∀ o, Fu E i (ne || o.isSome) (g o) Q) : Fu E i ne (codePointWithOffset k >>= g) Q := by
  intro s hs
  refine h (s.reader.cps[k]?) s ⟨hs.end_, hs.look, hs.pos, fun hne => ?_⟩
  rcases Bool.or_eq_true _ _ |>.mp hne with h1 | h1
  · exact hs.nonempty h1
  · intro hnil; rw [hnil] at h1; cases h1

theorem Fu.bind_index {i : Nat} {ne : Bool} {Q : β → Nat} {g : Nat → M β}
    (h : ∀ a, i ≤ a → a ≤ E → Fu E i ne (g a) Q) : Fu E i ne (index >>= g) Q := by
  intro s hs
  exact h s.reader.index hs.pos (Nat.le_trans (Nat.le_add_right _ _) hs.look) s hs

theorem Fu.bind_unwrap {i : Nat} {ne : Bool} {Q : β → Nat} {o : Option α} {why : String} {g : α → M β}
    (h : ∀ a, Fu E i ne (g a) Q) : Fu E i ne (unwrap o why >>= g) Q := by
  cases o with
  | none => exact fun _ _ => trivial
  | some a => exact h a

theorem Fu.bind_fail {i : Nat} {ne : Bool} {Q : β → Nat} {msg : String} {g : α → M β} :
    Fu E i ne ((DL.Rx.fail msg : M α) >>= g) Q := fun _ _ => trivial

theorem Fu.bind_rustPanic {i : Nat} {ne : Bool} {Q : β → Nat} {why : String} {g : α → M β} :
    Fu E i ne ((DL.Rx.rustPanic why : M α) >>= g) Q := fun _ _ => trivial

theorem Fu.bind_checkedI64 {i : Nat} {ne : Bool} {Q : β → Nat} {v : Int} {site : String} {g : Int → M β}
    (h : ∀ a, Fu E i ne (g a) Q) : Fu E i ne (checkedI64 v site >>= g) Q := by
  intro s hs
  show Post E Q (M.bind (checkedI64 v site) g s)
  unfold M.bind
  have key : checkedI64 v site s = .ok v s ∨ checkedI64 v site s = .ok (wrapI64 v) s ∨
      ∃ w, checkedI64 v site s = .panic w s := by
    show (if i64Min ≤ v ∧ v ≤ i64Max then (Pure.pure v : M Int) else _) s = _ ∨
      (if i64Min ≤ v ∧ v ≤ i64Max then (Pure.pure v : M Int) else _) s = _ ∨
      ∃ w, (if i64Min ≤ v ∧ v ≤ i64Max then (Pure.pure v : M Int) else _) s = _
    by_cases hr : i64Min ≤ v ∧ v ≤ i64Max
    · rw [if_pos hr]; exact .inl rfl
    · rw [if_neg hr]
      show (if s.overflowChecks = true then (DL.Rx.rustPanic _ : M Int) else Pure.pure (wrapI64 v)) s = _ ∨
        (if s.overflowChecks = true then (DL.Rx.rustPanic _ : M Int) else Pure.pure (wrapI64 v)) s = _ ∨
        ∃ w, (if s.overflowChecks = true then (DL.Rx.rustPanic _ : M Int) else Pure.pure (wrapI64 v)) s = _
      by_cases ho : s.overflowChecks = true
      · rw [if_pos ho]; exact .inr (.inr ⟨_, rfl⟩)
      · rw [if_neg ho]; exact .inr (.inl rfl)
  rcases key with h1 | h1 | ⟨w, h1⟩ <;> rw [h1]
  · exact h v s hs
  · exact h _ s hs
  · trivial

/-- `advance` with a buffer known to be non-empty moves the position -/
theorem Fu.bind_advance {i : Nat} {ne : Bool} {Q : β → Nat} {g : Unit → M β} (hne : ne = true)
    (h : Fu E (i + 1) false (g ()) Q) : Fu E i ne (advance >>= g) Q := by
  subst hne
  exact Fu.bind (F.advance_ne i) fun _ => h

theorem Fu.pureB {i : Nat} {ne : Bool} {Q : Bool → Nat} {a : Bool} (h : a.toNat ≤ 1 → Q a ≤ i) :
    Fu E i ne (Pure.pure a : M Bool) Q := Fu.pure (h (by cases a <;> decide))

/-- linear arithmetic side conditions (fuel, positions) -/
macro "rx3_arith" : tactic => `(tactic|
  ((try dsimp only at *); (try simp only [Bool.toNat_true, Bool.toNat_false, Nat.add_zero] at *); omega))

open Lean Elab Tactic Meta in
/-- explicit arguments of a lemma as holes: `?_` for hypotheses (become goals), `_` for data (by unification) -/
def mkHoles (ty : Expr) : MetaM (Array (TSyntax `term) × Nat) :=
  forallTelescope ty fun xs _ => do
    let mut args : Array (TSyntax `term) := #[]
    let mut props := 0
    for x in xs do
      let d ← x.fvarId!.getDecl
      if d.binderInfo.isExplicit then
        if (← isProp d.type) then
          args := args.push (← `(?_))
          props := props + 1
        else args := args.push (← `(_))
    return (args, props)

open Lean Elab Tactic Meta in
/-- `f args >>= g` for an `f` with a lemma `DL.Rx.F.f`, or an induction hypothesis about `f` in the context;
hypotheses of the lemma (fuel, positions) go to `rx3_arith` -/
elab "rx3_known" : tactic => do
  let g ← getMainGoal
  g.withContext do
    let t ← instantiateMVars (← g.getType)
    unless t.isAppOfArity ``DL.Rx.Fu 6 do throwError "rx3_known: not a Fu goal"
    let comp := t.getAppArgs[4]!
    unless comp.isAppOfArity ``Bind.bind 6 do throwError "rx3_known: not a bind"
    let m := comp.getAppArgs[4]!
    let .const n _ := m.getAppFn | throwError "rx3_known: no head constant"
    let mut fn : Option (TSyntax `term × Expr) := none
    for decl in (← getLCtx) do
      if decl.isImplementationDetail then continue
      let ty ← instantiateMVars decl.type
      let hit ← withNewMCtxDepth do
        let (_, _, concl) ← forallMetaTelescope ty
        if concl.isAppOfArity ``DL.Rx.Fu 6 then
          match concl.getAppArgs[4]!.getAppFn with
          | .const n' _ => pure (n' == n)
          | _ => pure false
        else pure false
      if hit then
        fn := some (← Term.exprToSyntax (mkFVar decl.fvarId), ty)
        break
    if fn.isNone then
      let .str _ last := n | throwError "rx3_known: anonymous"
      let lem := Name.str (Name.str `DL.Rx "F") last
      let some ci := (← getEnv).find? lem | throwError "rx3_known: no lemma {lem}"
      fn := some (mkIdent lem, ci.type)
    let some (f, ty) := fn | throwError "rx3_known: unreachable"
    let (args, props) ← mkHoles ty
    evalTactic (← `(tactic| with_reducible refine Fu.le (fun _ => ?_)))
    evalTactic (← `(tactic| with_reducible refine Fu.bind ($f $args*) (fun _ => ?_)))
    let gs ← getGoals
    let side := gs.take props
    let rest := gs.drop props
    for sg in side do
      setGoals [sg]
      evalTactic (← `(tactic| rx3_arith))
    setGoals rest

macro "rx3_step" : tactic => `(tactic| (show Fu _ _ _ _ _; first
  | (with_reducible refine Fu.ite (fun hc => ?pos) (fun hn => ?neg);
     (case' pos => first | contradiction | (exact absurd hc (by decide)) | subst hc
                         | (simp only [Bool.not_eq_true'] at hc; subst hc) | skip);
     (case' neg => first | contradiction | (exact absurd (by decide) hn)
                         | (simp only [Bool.not_eq_true', Bool.not_eq_false] at hn; subst hn) | skip))
  | (with_reducible refine Fu.bind_ite (fun hc => ?pos) (fun hn => ?neg);
     (case' pos => first | contradiction | (exact absurd hc (by decide)) | subst hc
                         | (simp only [Bool.not_eq_true'] at hc; subst hc) | skip);
     (case' neg => first | contradiction | (exact absurd (by decide) hn)
                         | (simp only [Bool.not_eq_true', Bool.not_eq_false] at hn; subst hn) | skip))
  | with_reducible refine Fu.bind_pure ?_
  | with_reducible refine Fu.bind_assoc ?_
  | with_reducible refine Fu.bind_orM ?_
  | with_reducible refine Fu.bind_andM ?_
  | with_reducible refine Fu.bind_getSt (fun _ => ?_)
  | with_reducible refine Fu.bind_cpo (fun _ => ?_)
  | with_reducible refine Fu.bind_index (fun _ _ _ => ?_)
  | with_reducible exact Fu.bind_fail
  | with_reducible exact Fu.bind_rustPanic
  | with_reducible refine Fu.bind_unwrap (fun _ => ?_)
  | with_reducible refine Fu.bind_checkedI64 (fun _ => ?_)
  | with_reducible refine Fu.bind_setInt ?_
  | with_reducible refine Fu.bind_setStr ?_
  | (with_reducible refine Fu.bind_modSt (fun _ => rfl) ?_)
  | (with_reducible refine Fu.bind_advance ?hne ?_; (case hne => first | rfl | (simp; done)))
  | (with_reducible refine Fu.pureB (fun _ => ?_); focus rx3_arith)
  | (with_reducible refine Fu.pure ?_; focus rx3_arith)
  | rx3_known
  | split
  | dsimp only
  | ((fail_if_success (with_reducible refine Fu.bind (R := ?_) ?_ (fun _ => ?_)));
     (fail_if_success (with_reducible refine Fu.pure ?_)); with_reducible refine Fu.tail ?_)))

macro "rx3_auto" : tactic => `(tactic| repeat' rx3_step)

end DL.Rx
