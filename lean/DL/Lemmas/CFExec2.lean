import DL.Lemmas.CFExec1

/-! **Soundness of the closed-form completions**: every outcome of the inductive semantics is among the completions
computed by `Stmt.compl` (and its companions).  Unconditional (no fragment). -/
namespace DL.CF

/-- the loop of a `for` statement, closed form (the part of `Stmt.compl` after the initialiser) -/
def forLoopC (ls : List Id) (update test : Kids) (hasTest tt : Bool) (body : Stmt) : Compl :=
  (testCompl tt test).seq ((loopCompl ls (hasTest && !tt) (body.compl [])).union
    (Compl.guard (goesRound ls (body.compl [])) (update.compl.seq (testCompl tt test)).abrupt))

/-- the loop of a `for-in/of` statement, closed form (after the iterated expression) -/
def forInC (ls : List Id) (left : Kids) (body : Stmt) : Compl :=
  left.compl.seq ((loopCompl ls true (body.compl [])).union left.compl.abrupt)

theorem compl_for (ls : List Id) (p : Nat) (i u t : Kids) (ht tt : Bool) (b : Stmt) :
    Stmt.compl ls (.forS p i u t ht tt b) = i.compl.seq (forLoopC ls u t ht tt b) := by
  simp [Stmt.compl, forLoopC]

theorem has_compl_forIn (ls : List Id) (p : Nat) (l r : Kids) (b : Stmt) (o : Outcome) :
    (Stmt.compl ls (.forInOf p l r b)).has o = (r.compl.seq (forInC ls l b)).has o := by
  simp only [Stmt.compl, forInC]
  exact has_seq_assoc _ _ _ o

/-- the `switch` closed form: what the cases contribute, with `break` consumed -/
def casesLeave (cs : Cases) : Compl :=
  let c := cs.compl.1.union (Compl.guard (!cs.compl.2) .normal)
  { c with n := c.n || c.b, b := false }

theorem compl_switch (ls : List Id) (p : Nat) (d : Kids) (cs : Cases) :
    Stmt.compl ls (.switchS p d cs) = (d.compl.seq { n := true, t := cs.testsMayThrow }).seq (casesLeave cs) := by
  simp [Stmt.compl, casesLeave]

theorem Outcome.leavesSwitch_has (c : Compl) (o : Outcome) (h : c.has o = true) :
    ({ c with n := c.n || c.b, b := false } : Compl).has o.leavesSwitch = true := by
  rcases o with _ | l | l | _ | _
  · simp [Outcome.leavesSwitch, Compl.has, show c.n = true from h]
  · cases l with
    | none => simp [Outcome.leavesSwitch, Compl.has, show c.b = true from h]
    | some l => exact h
  · cases l <;> exact h
  · exact h
  · exact h

theorem hasDefault_eq : ∀ (cs : Cases), cs.hasDefault = cs.compl.2
  | .nil => by simp [Cases.hasDefault, Cases.compl]
  | .cons _ d _ _ r => by simp [Cases.hasDefault, Cases.compl, hasDefault_eq r]

end DL.CF
