import DL.Lemmas.CFViol3

/-! A function body block is never at the position of a statement that contains it; the claims of the rule layers and
their transport along agreeing metadata. -/
namespace DL.CF

mutual
theorem Kid.fpos_getters : ∀ (k : Kid) (q : Nat), q ∈ k.fpos → k.positions.Nodup → ∀ g ∈ k.getters, g.bodyP ≠ q
  | .expr _ ks, q, h, hn, g, hg => by
    simp only [Kid.fpos] at h; simp only [Kid.positions] at hn; simp only [Kid.getters] at hg
    exact Kids.fpos_getters ks q h hn g hg
  | .fnScope p ks, q, h, hn, g, hg => by
    simp only [Kid.fpos, List.mem_singleton] at h; subst h
    simp only [Kid.positions] at hn
    have hq := (List.nodup_cons.mp hn).1
    have := Kid.getters_mem (.fnScope q ks) g hg
    simp only [Kid.positions, List.mem_cons] at this
    intro e
    rcases this with h | h
    · rcases List.mem_append.mp hg with h' | h'
      · exact hq (e ▸ Kids.fnBodies_mem q ks g h')
      · exact hq (e ▸ Kids.getters_mem ks g h')
    · exact hq (e ▸ h)
  | .block _ _, q, h, _, _, _ => by simp [Kid.fpos] at h
  | .stmt _, q, h, _, _, _ => by simp [Kid.fpos] at h
theorem Kids.fpos_getters : ∀ (ks : Kids) (q : Nat), q ∈ ks.fpos → ks.positions.Nodup → ∀ g ∈ ks.getters, g.bodyP ≠ q
  | .nil, q, h, _, _, _ => by simp [Kids.fpos] at h
  | .cons k r, q, h, hn, g, hg => by
    simp only [Kids.fpos, List.mem_append] at h
    simp only [Kids.positions] at hn
    simp only [Kids.getters, List.mem_append] at hg
    have hn' := List.nodup_append.mp hn
    rcases h with h | h
    · rcases hg with hg | hg
      · exact Kid.fpos_getters k q h hn'.1 g hg
      · exact fun e => hn'.2.2 q (Kid.fpos_sub k q h) q (e ▸ Kids.getters_mem r g hg) rfl
    · rcases hg with hg | hg
      · exact fun e => hn'.2.2 q (e ▸ Kid.getters_mem k g hg) q (Kids.fpos_sub r q h) rfl
      · exact Kids.fpos_getters r q h hn'.2.1 g hg
end

theorem Stmt.getters_ne (s : Stmt) (h : s.positions.Nodup) (g : Getter) (hg : g ∈ s.getters) : g.bodyP ≠ s.pos := by
  have hr := Stmt.getters_rest s g hg
  intro e
  rw [e] at hr
  cases s with
  | simple p t kids =>
    simp only [Stmt.restPositions, Stmt.pos] at hr e
    rcases Stmt.simple_own p t kids h with h1 | h1
    · exact Kids.fpos_getters kids p h1 (Stmt.nodup_simple p t kids h) g hg e
    · exact h1 hr
  | ifS p t c a =>
    cases a <;> (simp only [Stmt.positions] at h; exact (List.nodup_cons.mp h).1 hr)
  | brk p l => simp [Stmt.getters] at hg
  | cont p l => simp [Stmt.getters] at hg
  | _ => simp only [Stmt.positions] at h; exact (List.nodup_cons.mp h).1 hr

/-! ### the claims -/
/-- what the rule layers may rely on in the final metadata `F`, for a piece of syntax with "stops-violations" `sv`
(already evaluated at `F`), switch cases `cs` and function bodies `gs`:
* every statement whose metadata stops although it can complete normally is marked `unreachable`;
* if some statement of a case body stops although the body can complete normally, the `switch` statement is marked
  `unreachable`;
* the metadata of a function body block stops only if the body cannot complete normally. -/
structure Claims (sv : List Nat) (cs : List (Nat × Stmts)) (gs : List Getter) (F : Info) : Prop where
  sv : ∀ q ∈ sv, F.ur q = true
  cv : ∀ c ∈ cs, stmtsStop F c.2 = true → c.2.compl.n = true → F.ur c.1 = true
  gv : ∀ g ∈ gs, metaStops F g.bodyP = true → g.body.compl.n = false

theorem Claims.nil (F : Info) : Claims [] [] [] F :=
  ⟨fun _ h => absurd h (by simp), fun _ h => absurd h (by simp), fun _ h => absurd h (by simp)⟩

theorem Claims.append {s1 s2 : List Nat} {c1 c2 : List (Nat × Stmts)} {g1 g2 : List Getter} {F : Info}
    (h1 : Claims s1 c1 g1 F) (h2 : Claims s2 c2 g2 F) : Claims (s1 ++ s2) (c1 ++ c2) (g1 ++ g2) F :=
  ⟨fun q hq => (List.mem_append.mp hq).elim (h1.sv q) (h2.sv q),
   fun c hc => (List.mem_append.mp hc).elim (h1.cv c) (h2.cv c),
   fun g hg => (List.mem_append.mp hg).elim (h1.gv g) (h2.gv g)⟩

/-- transport along metadata that agree on the keys consulted -/
theorem Claims.transport {svF svG : List Nat} {cs : List (Nat × Stmts)} {gs : List Getter} {F G : Info}
    (h : Claims svG cs gs G)
    (hsv : ∀ q ∈ svF, q ∈ svG ∧ F.ur q = G.ur q)
    (hcs : ∀ c ∈ cs, (∀ r ∈ c.2.topPos, F r = G r) ∧ F.ur c.1 = G.ur c.1)
    (hgs : ∀ g ∈ gs, F g.bodyP = G g.bodyP) : Claims svF cs gs F := by
  refine ⟨?_, ?_, ?_⟩
  · intro q hq; rw [(hsv q hq).2]; exact h.sv q (hsv q hq).1
  · intro c hc hst hn
    rw [(hcs c hc).2]
    exact h.cv c hc (by rw [← stmtsStop_congr G F c.2 (hcs c hc).1]; exact hst) hn
  · intro g hg hst
    exact h.gv g hg (by rw [← metaStops_congr (hgs g hg)]; exact hst)

/-- the generic instance: the three key sets lie in `ps`, on which `F` and `G` agree -/
theorem Claims.transport_on {f : Info → List Nat} {us ps : List Nat} {cs : List (Nat × Stmts)} {gs : List Getter} {F G : Info}
    (h : Claims (f G) cs gs G) (hloc : SVLocal f us) (hcsk : CSK cs [] us) (hgin : GIn gs ps)
    (hus : ∀ q, q ∈ us → q ∈ ps) (hag : ∀ q ∈ ps, F q = G q) : Claims (f F) cs gs F := by
  refine h.transport ?_ ?_ ?_
  · intro q hq
    have := hloc G F q hq
    exact ⟨this.2 (hag q (hus q this.1)), ur_eq_of_info_eq (hag q (hus q this.1))⟩
  · intro c hc
    have := hcsk c hc
    refine ⟨fun r hr => hag r (hus r (this.2 r hr)), ?_⟩
    rcases this.1 with h' | h'
    · simp at h'
    · exact ur_eq_of_info_eq (hag _ (hus _ h'))
  · intro g hg; exact hag _ (hgin g hg)

end DL.CF
