import DL.Lemmas.RxSpecTop

/-! # The scan of `count_capturing_parens` on derivable strings counts the capturing groups -/
namespace DL.Rx
open DL.RxSpec DL.Gen.Unicode

/-- a unit that the scan passes over without changing its state -/
def NeutralC (x : Nat) : Prop := x ≠ 0x5C ∧ x ≠ 0x5B ∧ x ≠ 0x5D ∧ x ≠ 0x28

theorem scan_esc (x : Nat) (r : List Nat) (ic : Bool) (k : Nat) : scan (x :: r) ic true k = scan r ic false k := by
  simp [scan]

theorem scan_neutral {x : Nat} (h : NeutralC x) (r : List Nat) (ic : Bool) (k : Nat) :
    scan (x :: r) ic false k = scan r ic false k := by
  obtain ⟨h1, h2, h3, h4⟩ := h
  have e1 : (x == ch '\\') = false := beq_eq_false_iff_ne.mpr h1
  have e2 : (x == ch '[') = false := beq_eq_false_iff_ne.mpr h2
  have e3 : (x == ch ']') = false := beq_eq_false_iff_ne.mpr h3
  have e4 : (x == ch '(') = false := beq_eq_false_iff_ne.mpr h4
  simp [scan, e1, e2, e3, e4]

theorem scan_backslash (r : List Nat) (ic : Bool) (k : Nat) : scan (ch '\\' :: r) ic false k = scan r ic true k := by
  simp [scan]

theorem scan_neutrals {w : List Nat} (h : ∀ x ∈ w, NeutralC x) (r : List Nat) (ic : Bool) (k : Nat) :
    scan (w ++ r) ic false k = scan r ic false k := by
  induction w with
  | nil => rfl
  | cons x w ih =>
    rw [List.cons_append, scan_neutral (h x List.mem_cons_self), ih (fun y hy => h y (List.mem_cons_of_mem _ hy))]

/-- scan-neutral text: from the unescaped state to the unescaped state, in- or outside a class -/
def SN (i r : List Nat) : Prop := ∀ ic k, scan i ic false k = scan r ic false k
/-- the text of an escape: scanned from the escaped state -/
def SE (i r : List Nat) : Prop := ∀ ic k, scan i ic true k = scan r ic false k

theorem SN.trans {i m r : List Nat} (h1 : SN i m) (h2 : SN m r) : SN i r := fun ic k => (h1 ic k).trans (h2 ic k)
theorem SE.trans {i m r : List Nat} (h1 : SE i m) (h2 : SN m r) : SE i r := fun ic k => (h1 ic k).trans (h2 ic k)
theorem SN.refl (r : List Nat) : SN r r := fun _ _ => rfl
theorem SN.cons {x : Nat} (h : NeutralC x) (r : List Nat) : SN (x :: r) r := fun ic k => scan_neutral h r ic k
theorem SN.append {w : List Nat} (h : ∀ x ∈ w, NeutralC x) (r : List Nat) : SN (w ++ r) r :=
  fun ic k => scan_neutrals h r ic k
theorem SE.cons (x : Nat) (r : List Nat) : SE (x :: r) r := fun ic k => scan_esc x r ic k
theorem SN.backslash {m r : List Nat} (h : SE m r) : SN (ch '\\' :: m) r :=
  fun ic k => (scan_backslash m ic k).trans (h ic k)

theorem hexDigit_neutral {x : Nat} (h : HexDigit x) : NeutralC x := by
  have h' : (0x30 ≤ x ∧ x ≤ 0x39) ∨ (0x61 ≤ x ∧ x ≤ 0x66) ∨ (0x41 ≤ x ∧ x ≤ 0x46) := h
  unfold NeutralC; omega
theorem decimalDigit_neutral {x : Nat} (h : DecimalDigit x) : NeutralC x := by
  have h' : 0x30 ≤ x ∧ x ≤ 0x39 := h
  unfold NeutralC; omega
theorem controlLetter_neutral {x : Nat} (h : ControlLetter x) : NeutralC x := by
  have h' : (0x61 ≤ x ∧ x ≤ 0x7a) ∨ (0x41 ≤ x ∧ x ≤ 0x5a) := h
  unfold NeutralC; omega
theorem valueChar_neutral {x : Nat} (h : UnicodePropertyValueCharacter x) : NeutralC x := by
  rcases h with (h | h) | h
  · exact controlLetter_neutral h
  · have : x = 0x5f := h
    unfold NeutralC; omega
  · exact decimalDigit_neutral h
theorem nameChar_neutral {x : Nat} (h : UnicodePropertyNameCharacter x) : NeutralC x := valueChar_neutral (.inl h)

theorem identifierPartChar_neutral {x : Nat} (h : IdentifierPartChar x) : NeutralC x := by
  rcases h with ((((h | h) | h) | h | h | h) | h | h | h)
  · have h' : (0x61 ≤ x ∧ x ≤ 0x7a) := h; unfold NeutralC; omega
  · have h' : (0x41 ≤ x ∧ x ≤ 0x5a) := h; unfold NeutralC; omega
  · have := inTable_ge largeIdStart_ge h; unfold NeutralC; omega
  · have h' : 0x30 ≤ x ∧ x ≤ 0x39 := h; unfold NeutralC; omega
  · have h' : x = 0x5F := h; unfold NeutralC; omega
  · have := inTable_ge largeIdContinue_ge h; unfold NeutralC; omega
  · have h' : x = 0x24 := h; unfold NeutralC; omega
  · have h' : x = 0x200C := h; unfold NeutralC; omega
  · have h' : x = 0x200D := h; unfold NeutralC; omega

theorem hex4_SN {i r : List Nat} {v : Nat} (h : Hex4Digits i r v) : SN i r := by
  obtain ⟨a, b, c', d, rfl, ha, hb, hc, hd, -⟩ := h
  exact (SN.cons (hexDigit_neutral ha) _).trans ((SN.cons (hexDigit_neutral hb) _).trans
    ((SN.cons (hexDigit_neutral hc) _).trans (SN.cons (hexDigit_neutral hd) _)))

theorem digitRun_SN {p : Nat → Prop} (hp : ∀ x, p x → NeutralC x) {ds i r : List Nat} (h : DigitRun p ds i r) :
    SN i r := by
  obtain ⟨rfl, -, hds⟩ := h
  exact SN.append (fun x hx => hp x (hds x hx)) r

theorem rues_SE {i r : List Nat} {v : Nat} (h : RegExpUnicodeEscapeSequence i r v) : SE i r := by
  cases h with
  | surrogatePair m₁ m₂ r lead trail h1 _ h2 _ =>
    refine (SE.cons _ _).trans ((hex4_SN h1).trans ?_)
    exact (SN.backslash (SE.cons _ _)).trans (hex4_SN h2)
  | lead m r v h1 _ _ => exact (SE.cons _ _).trans (hex4_SN h1)
  | nonLead m r v h1 _ => exact (SE.cons _ _).trans (hex4_SN h1)
  | codePoint m r ds h1 _ =>
    refine (SE.cons _ _).trans ((SN.cons (by unfold NeutralC; decide) _).trans ?_)
    exact (digitRun_SN (fun x hx => hexDigit_neutral hx) h1).trans (SN.cons (by unfold NeutralC; decide) _)

theorem characterEscape_SE {i r : List Nat} {v : Nat} (h : CharacterEscape i r v) : SE i r := by
  cases h with
  | f r => exact SE.cons _ _
  | n r => exact SE.cons _ _
  | r r => exact SE.cons _ _
  | t r => exact SE.cons _ _
  | v r => exact SE.cons _ _
  | controlLetter l r hl => exact (SE.cons _ _).trans (SN.cons (controlLetter_neutral hl) _)
  | zero r _ => exact SE.cons _ _
  | hex a b r ha hb =>
    exact (SE.cons _ _).trans ((SN.cons (hexDigit_neutral ha) _).trans (SN.cons (hexDigit_neutral hb) _))
  | unicode i r v h => exact rues_SE h
  | identity x r _ => exact SE.cons _ _

theorem upve_SN {i r : List Nat} (h : UnicodePropertyValueExpression i r) : SN i r := by
  cases h with
  | nameValue _ _ name value h1 h2 _ _ =>
    exact (digitRun_SN (fun x hx => nameChar_neutral hx) h1).trans
      ((SN.cons (x := c '=') (by unfold NeutralC; decide) _).trans (digitRun_SN (fun x hx => valueChar_neutral hx) h2))
  | lone _ v h1 _ _ => exact digitRun_SN (fun x hx => valueChar_neutral hx) h1

theorem characterClassEscape_SE {i r : List Nat} (h : CharacterClassEscape i r) : SE i r := by
  cases h with
  | simple x r _ => exact SE.cons _ _
  | property x m r _ h1 =>
    exact (SE.cons _ _).trans ((SN.cons (by unfold NeutralC; decide) _).trans
      ((upve_SN h1).trans (SN.cons (by unfold NeutralC; decide) _)))

theorem identifierStartChar_neutral {x : Nat} (h : IdentifierStartChar x) : NeutralC x :=
  identifierPartChar_neutral (identifierStartChar_part h)

theorem idStart_SN {i r : List Nat} {x : Nat} (h : RegExpIdentifierStart i r x) : SN i r := by
  cases h with
  | char x r hx => exact SN.cons (identifierStartChar_neutral hx) _
  | escape m r v hu _ => exact SN.backslash (rues_SE hu)

theorem idPart_SN {i r : List Nat} {x : Nat} (h : RegExpIdentifierPart i r x) : SN i r := by
  cases h with
  | char x r hx => exact SN.cons (identifierPartChar_neutral hx) _
  | escape m r v hu _ => exact SN.backslash (rues_SE hu)

theorem idName_SN {i r : List Nat} {n : Name} (h : RegExpIdentifierName i r n) : SN i r := by
  induction h
  · rename_i h; exact idStart_SN h
  · rename_i hp ih; exact ih.trans (idPart_SN hp)

theorem groupName_SN {i r : List Nat} {n : Name} (h : GroupName i r n) : SN i r := by
  obtain ⟨m, rfl, hn⟩ := h
  exact (SN.cons (by unfold NeutralC; decide) _).trans ((idName_SN hn).trans (SN.cons (by unfold NeutralC; decide) _))

theorem decimalEscape_SE {i r : List Nat} {v : Nat} (h : DecimalEscape i r v) : SE i r := by
  obtain ⟨ds, rfl, ⟨d, ds', rfl, _⟩, hds, -, -⟩ := h
  exact (SE.cons _ _).trans (SN.append (fun x hx => decimalDigit_neutral (hds x (List.mem_cons_of_mem _ hx))) r)

theorem atomEscape_SE {N : Nat} {i r : List Nat} {a : Attr} (h : AtomEscape N i r a) : SE i r ∧ a.groups = [] := by
  cases h with
  | decimal _ _ v h _ => exact ⟨decimalEscape_SE h, rfl⟩
  | characterClass _ _ h => exact ⟨characterClassEscape_SE h, rfl⟩
  | character _ _ v h => exact ⟨characterEscape_SE h, rfl⟩
  | named m r n h => exact ⟨(SE.cons _ _).trans (groupName_SN h), rfl⟩

theorem classEscape_SE {i r : List Nat} {v : Option Nat} (h : ClassEscape i r v) : SE i r := by
  cases h with
  | b r => exact SE.cons _ _
  | dash r => exact SE.cons _ _
  | characterClass _ _ h => exact characterClassEscape_SE h
  | character _ _ v h => exact characterEscape_SE h

/-- text inside a character class: scanned with `in_class = true` -/
def SC (i r : List Nat) : Prop := ∀ k, scan i true false k = scan r true false k
theorem SC.trans {i m r : List Nat} (h1 : SC i m) (h2 : SC m r) : SC i r := fun k => (h1 k).trans (h2 k)

theorem ch_vals : ch '\\' = 92 ∧ ch '[' = 91 ∧ ch ']' = 93 ∧ ch '(' = 40 ∧ ch '?' = 63 ∧ ch '<' = 60 ∧ ch '=' = 61 ∧
    ch '!' = 33 := ⟨rfl, rfl, rfl, rfl, rfl, rfl, rfl, rfl⟩

theorem scan_open_in (r : List Nat) (k : Nat) : scan (0x5B :: r) true false k = scan r true false k := by
  simp [scan, ch_vals.1, ch_vals.2.1]
theorem scan_open (r : List Nat) (k : Nat) : scan (0x5B :: r) false false k = scan r true false k := by
  simp [scan, ch_vals.1, ch_vals.2.1]
theorem scan_close (r : List Nat) (k : Nat) : scan (0x5D :: r) true false k = scan r false false k := by
  simp [scan, ch_vals.1, ch_vals.2.1, ch_vals.2.2.1]

theorem scan_inClass {x : Nat} (h1 : x ≠ 0x5C) (h3 : x ≠ 0x5D) (r : List Nat) (k : Nat) :
    scan (x :: r) true false k = scan r true false k := by
  have e1 : (x == ch '\\') = false := beq_eq_false_iff_ne.mpr h1
  have e3 : (x == ch ']') = false := beq_eq_false_iff_ne.mpr h3
  by_cases h2 : x = 0x5B
  · subst h2; exact scan_open_in r k
  · have e2 : (x == ch '[') = false := beq_eq_false_iff_ne.mpr h2
    simp [scan, e1, e2, e3]

theorem classAtomNoDash_SC {i r : List Nat} {v : Option Nat} (h : ClassAtomNoDash i r v) : SC i r := by
  cases h with
  | char x r _ h1 h2 _ => exact fun k => scan_inClass h1 h2 r k
  | escape m r v h => exact fun k => (SN.backslash (classEscape_SE h)) true k

theorem classAtom_SC {i r : List Nat} {v : Option Nat} (h : ClassAtom i r v) : SC i r := by
  cases h with
  | dash r => exact fun k => scan_inClass (by decide) (by decide) r k
  | noDash _ _ v h => exact classAtomNoDash_SC h

theorem dash_SC (r : List Nat) : SC (c '-' :: r) r := fun k => scan_inClass (by decide) (by decide) r k

theorem cr_SC {sym : CRSym} {i r : List Nat} (h : CR sym i r) : SC i r := by
  induction h with
  | empty r => exact fun _ => rfl
  | nonempty i r _ ih => exact ih
  | atom i r v h => exact classAtom_SC h
  | atomMore i m r v h _ ih => exact (classAtom_SC h).trans ih
  | range i m₁ m₂ r a b ha hb _ _ ih => exact ((classAtom_SC ha).trans ((dash_SC _).trans (classAtom_SC hb))).trans ih
  | ndAtom i r v h => exact classAtom_SC h
  | ndAtomMore i m r v h _ ih => exact (classAtomNoDash_SC h).trans ih
  | ndRange i m₁ m₂ r a b ha hb _ _ ih =>
    exact ((classAtomNoDash_SC ha).trans ((dash_SC _).trans (classAtom_SC hb))).trans ih

/-- scanned outside a class from and to the unescaped state, nothing counted -/
def SO (i r : List Nat) : Prop := ∀ k, scan i false false k = scan r false false k

theorem characterClass_SO {i r : List Nat} (h : CharacterClass i r) : SO i r := by
  cases h with
  | pos m r _ hcr =>
    intro k
    have h1 : scan (c '[' :: m) false false k = scan m true false k := scan_open m k
    have h2 : scan (c ']' :: r) true false k = scan r false false k := scan_close r k
    rw [h1, cr_SC hcr k, h2]
  | neg m r hcr =>
    intro k
    have h1 : scan (c '[' :: c '^' :: m) false false k = scan m true false k :=
      (scan_open _ k).trans (scan_inClass (x := 0x5E) (by decide) (by decide) m k)
    have h2 : scan (c ']' :: r) true false k = scan r false false k := scan_close r k
    rw [h1, cr_SC hcr k, h2]

theorem quantifierPrefix_SN {qok : Nat → Nat → Prop} {i r : List Nat} (h : QuantifierPrefix qok i r) : SN i r := by
  have hd : ∀ {ds i r}, DigitRun DecimalDigit ds i r → SN i r := fun h => digitRun_SN (fun x hx => decimalDigit_neutral hx) h
  cases h with
  | star r => exact SN.cons (by unfold NeutralC; decide) _
  | plus r => exact SN.cons (by unfold NeutralC; decide) _
  | opt r => exact SN.cons (by unfold NeutralC; decide) _
  | exact m r ds h =>
    exact (SN.cons (by unfold NeutralC; decide) _).trans ((hd h).trans (SN.cons (by unfold NeutralC; decide) _))
  | atLeast m r ds h =>
    exact (SN.cons (by unfold NeutralC; decide) _).trans ((hd h).trans
      ((SN.cons (by unfold NeutralC; decide) _).trans (SN.cons (by unfold NeutralC; decide) _)))
  | range m₁ m₂ r ds₁ ds₂ h1 h2 _ =>
    exact (SN.cons (by unfold NeutralC; decide) _).trans ((hd h1).trans
      ((SN.cons (by unfold NeutralC; decide) _).trans ((hd h2).trans (SN.cons (by unfold NeutralC; decide) _))))

theorem quantifier_SN {qok : Nat → Nat → Prop} {i r : List Nat} (h : Quantifier qok i r) : SN i r := by
  cases h with
  | greedy h => exact quantifierPrefix_SN h
  | lazy h => exact (quantifierPrefix_SN h).trans (SN.cons (x := c '?') (by unfold NeutralC; decide) _)

/-! ### the recursive productions -/

def isTAA : Sym → Bool
  | .Term | .Assertion | .Atom => true
  | _ => false

theorem lit_head {s : List Char} {x : Char} {i m : List Nat} (h : lit (x :: s) i m) : i.head? = some (c x) := by
  unfold lit at h; rw [h]; rfl

theorem head_cons_ne {x y : Nat} (h : x ≠ y) (m : List Nat) : (x :: m).head? ≠ some y := by
  intro he
  exact h (by simpa using he)

/-- no phrase starts with `?` (a `Disjunction` / `Alternative` may be empty: then what follows must not be `?`) -/
theorem derives_head {qok : Nat → Nat → Prop} {N : Nat} {sym : Sym} {i r : List Nat} {a : Attr}
    (h : Derives qok N sym i r a) : (r.head? ≠ some (c '?') ∨ isTAA sym = true) → i.head? ≠ some (c '?') := by
  induction h with
  | disjOne i r a _ ih => exact fun h => ih (h.imp id (fun h => by cases h))
  | disjMore i m r a₁ a₂ _ _ ih1 _ => exact fun _ => ih1 (.inl (head_cons_ne (by decide) _))
  | altEmpty r => exact fun h => h.elim id (fun h => by cases h)
  | altSnoc i m r a₁ a₂ _ _ ih1 ih2 => exact fun _ => ih1 (.inl (ih2 (.inr rfl)))
  | termAssertion i r a _ ih => exact fun _ => ih (.inr rfl)
  | termAtom i r a _ ih => exact fun _ => ih (.inr rfl)
  | termQuantified i m r a _ _ ih => exact fun _ => ih (.inr rfl)
  | caret r => exact fun _ => head_cons_ne (by decide) _
  | dollar r => exact fun _ => head_cons_ne (by decide) _
  | wordBoundary r => exact fun _ => head_cons_ne (by decide) _
  | notWordBoundary r => exact fun _ => head_cons_ne (by decide) _
  | lookahead i m r a hl _ _ => exact fun _ => by rw [lit_head hl]; decide
  | negativeLookahead i m r a hl _ _ => exact fun _ => by rw [lit_head hl]; decide
  | lookbehind i m r a hl _ _ => exact fun _ => by rw [lit_head hl]; decide
  | negativeLookbehind i m r a hl _ _ => exact fun _ => by rw [lit_head hl]; decide
  | patternCharacter x r hx =>
    intro _ he
    have : x = c '?' := by simpa using he
    subst this
    exact hx.2 (by unfold SyntaxCharacter; decide)
  | dot r => exact fun _ => head_cons_ne (by decide) _
  | atomEscape m r a _ => exact fun _ => head_cons_ne (by decide) _
  | characterClass i r hc =>
    intro _
    cases hc <;> exact head_cons_ne (by decide) _
  | group m₁ m₂ r name a _ _ _ => exact fun _ => head_cons_ne (by decide) _
  | nonCapturing i m r a hl _ _ => exact fun _ => by rw [lit_head hl]; decide

theorem Attr.append_groups (a b : Attr) : (a ++ b).groups = a.groups ++ b.groups := rfl

theorem scan_paren_count {m : List Nat} (k : Nat)
    (h : (m[0]? != some (ch '?') || (m[1]? == some (ch '<') && m[2]? != some (ch '=') && m[2]? != some (ch '!'))) = true) :
    scan (0x28 :: m) false false k = scan m false false (k + 1) := by
  simp only [scan, Bool.false_eq_true, if_false]
  rw [if_neg (by rw [ch_vals.1]; decide), if_neg (by rw [ch_vals.2.1]; decide), if_neg (by rw [ch_vals.2.2.1]; decide),
    if_pos (by rw [h]; rw [ch_vals.2.2.2.1]; decide)]

theorem scan_paren_skip {m : List Nat} (k : Nat)
    (h : (m[0]? != some (ch '?') || (m[1]? == some (ch '<') && m[2]? != some (ch '=') && m[2]? != some (ch '!'))) = false) :
    scan (0x28 :: m) false false k = scan m false false k := by
  simp only [scan, Bool.false_eq_true, if_false]
  rw [if_neg (by rw [ch_vals.1]; decide), if_neg (by rw [ch_vals.2.1]; decide), if_neg (by rw [ch_vals.2.2.1]; decide),
    if_neg (by rw [h]; simp)]

theorem neutral_of_ne {x : Nat} (h : x ≠ 0x5C ∧ x ≠ 0x5B ∧ x ≠ 0x5D ∧ x ≠ 0x28) : NeutralC x := h

theorem idStart_ne {x : Nat} (hx : IdentifierStartChar x) : x ≠ 0x3D ∧ x ≠ 0x21 := by
  constructor <;> intro e <;> subst e
  · rcases hx with ((h | h) | h) | h | h
    · have h' : (0x61 ≤ 0x3D ∧ 0x3D ≤ 0x7a) := h; omega
    · have h' : (0x41 ≤ 0x3D ∧ 0x3D ≤ 0x5a) := h; omega
    · have := inTable_ge largeIdStart_ge h; omega
    · have h' : 0x3D = 0x24 := h; omega
    · have h' : 0x3D = 0x5F := h; omega
  · rcases hx with ((h | h) | h) | h | h
    · have h' : (0x61 ≤ 0x21 ∧ 0x21 ≤ 0x7a) := h; omega
    · have h' : (0x41 ≤ 0x21 ∧ 0x21 ≤ 0x5a) := h; omega
    · have := inTable_ge largeIdStart_ge h; omega
    · have h' : 0x21 = 0x24 := h; omega
    · have h' : 0x21 = 0x5F := h; omega

/-- the first unit of a group name text (after `?<`) is neither `=` nor `!` -/
theorem idName_head {i r : List Nat} {n : Name} (h : RegExpIdentifierName i r n) :
    i.head? ≠ some (ch '=') ∧ i.head? ≠ some (ch '!') := by
  induction h with
  | start _ _ hs =>
    cases hs
    · rename_i hx
      exact ⟨head_cons_ne (idStart_ne hx).1 _, head_cons_ne (idStart_ne hx).2 _⟩
    · exact ⟨head_cons_ne (by decide) _, head_cons_ne (by decide) _⟩
  | part _ _ _ _ _ _ ih => exact ih

theorem derives_scan {qok : Nat → Nat → Prop} {N : Nat} {sym : Sym} {i r : List Nat} {a : Attr}
    (h : Derives qok N sym i r a) : ∀ k, scan i false false k = scan r false false (k + a.groups.length) := by
  induction h with
  | disjOne i r a _ ih => exact ih
  | disjMore i m r a₁ a₂ _ _ ih1 ih2 =>
    intro k
    rw [ih1 k, scan_neutral (neutral_of_ne (by decide)), ih2, Attr.append_groups, List.length_append, Nat.add_assoc]
  | altEmpty r => exact fun k => rfl
  | altSnoc i m r a₁ a₂ _ _ ih1 ih2 =>
    intro k
    rw [ih1 k, ih2, Attr.append_groups, List.length_append, Nat.add_assoc]
  | termAssertion i r a _ ih => exact ih
  | termAtom i r a _ ih => exact ih
  | termQuantified i m r a _ hq ih =>
    intro k
    rw [ih k, quantifier_SN hq false]
  | caret r => exact fun k => scan_neutral (neutral_of_ne (by decide)) r false k
  | dollar r => exact fun k => scan_neutral (neutral_of_ne (by decide)) r false k
  | wordBoundary r => exact fun k => (SN.backslash (SE.cons _ _)) false k
  | notWordBoundary r => exact fun k => (SN.backslash (SE.cons _ _)) false k
  | lookahead i m r a hl _ ih =>
    intro k
    unfold lit at hl; subst hl
    show scan (0x28 :: 0x3F :: 0x3D :: m) false false k = _
    rw [scan_paren_skip k (by rw [ch_vals.2.2.2.2.1, ch_vals.2.2.2.2.2.1]; rfl),
      scan_neutral (neutral_of_ne (by decide)), scan_neutral (neutral_of_ne (by decide)), ih,
      scan_neutral (neutral_of_ne (by decide))]
  | negativeLookahead i m r a hl _ ih =>
    intro k
    unfold lit at hl; subst hl
    show scan (0x28 :: 0x3F :: 0x21 :: m) false false k = _
    rw [scan_paren_skip k (by rw [ch_vals.2.2.2.2.1, ch_vals.2.2.2.2.2.1]; rfl),
      scan_neutral (neutral_of_ne (by decide)), scan_neutral (neutral_of_ne (by decide)), ih,
      scan_neutral (neutral_of_ne (by decide))]
  | lookbehind i m r a hl _ ih =>
    intro k
    unfold lit at hl; subst hl
    show scan (0x28 :: 0x3F :: 0x3C :: 0x3D :: m) false false k = _
    rw [scan_paren_skip k (by rw [ch_vals.2.2.2.2.1, ch_vals.2.2.2.2.2.1, ch_vals.2.2.2.2.2.2.1]; rfl),
      scan_neutral (neutral_of_ne (by decide)), scan_neutral (neutral_of_ne (by decide)),
      scan_neutral (neutral_of_ne (by decide)), ih, scan_neutral (neutral_of_ne (by decide))]
  | negativeLookbehind i m r a hl _ ih =>
    intro k
    unfold lit at hl; subst hl
    show scan (0x28 :: 0x3F :: 0x3C :: 0x21 :: m) false false k = _
    rw [scan_paren_skip k (by rw [ch_vals.2.2.2.2.1, ch_vals.2.2.2.2.2.1, ch_vals.2.2.2.2.2.2.1, ch_vals.2.2.2.2.2.2.2]; rfl),
      scan_neutral (neutral_of_ne (by decide)), scan_neutral (neutral_of_ne (by decide)),
      scan_neutral (neutral_of_ne (by decide)), ih, scan_neutral (neutral_of_ne (by decide))]
  | patternCharacter x r hx =>
    intro k
    refine scan_neutral ⟨?_, ?_, ?_, ?_⟩ r false k <;> intro he <;> subst he <;>
      exact hx.2 (by unfold SyntaxCharacter; decide)
  | dot r => exact fun k => scan_neutral (neutral_of_ne (by decide)) r false k
  | atomEscape m r a hae =>
    intro k
    have := atomEscape_SE hae
    rw [this.2, (SN.backslash this.1) false k]; rfl
  | characterClass i r hc => exact fun k => characterClass_SO hc k
  | group m₁ m₂ r name a hgs hd ih =>
    intro k
    have hcount : ([name] ++ a.groups).length = 1 + a.groups.length := by simp; omega
    show scan (0x28 :: m₁) false false k = scan r false false (k + ([name] ++ a.groups).length)
    rw [hcount]
    cases hgs with
    | empty _ =>
      have hh := derives_head hd (.inl (head_cons_ne (by decide) _))
      rw [scan_paren_count k (by
        have : m₁[0]? ≠ some (ch '?') := by rw [← List.head?_eq_getElem?]; exact hh
        simp [this]), ih, scan_neutral (neutral_of_ne (by decide))]
      congr 1; omega
    | named m _ n hgn =>
      obtain ⟨m', rfl, hn⟩ := hgn
      have hh := idName_head hn
      rw [scan_paren_count k (by
        have h1 : m'[0]? ≠ some (ch '=') := by rw [← List.head?_eq_getElem?]; exact hh.1
        have h2 : m'[0]? ≠ some (ch '!') := by rw [← List.head?_eq_getElem?]; exact hh.2
        show ((c '?' :: c '<' :: m')[0]? != some (ch '?') ||
          ((c '?' :: c '<' :: m')[1]? == some (ch '<') && (c '?' :: c '<' :: m')[2]? != some (ch '=') &&
            (c '?' :: c '<' :: m')[2]? != some (ch '!'))) = true
        show (_ || (_ && m'[0]? != some (ch '=') && m'[0]? != some (ch '!'))) = true
        simp [h1, h2]),
        scan_neutral (neutral_of_ne (by decide)), scan_neutral (neutral_of_ne (by decide)), (idName_SN hn) false,
        scan_neutral (neutral_of_ne (by decide)), ih, scan_neutral (neutral_of_ne (by decide))]
      congr 1; omega
  | nonCapturing i m r a hl _ ih =>
    intro k
    unfold lit at hl; subst hl
    show scan (0x28 :: 0x3F :: 0x3A :: m) false false k = _
    rw [scan_paren_skip k (by rw [ch_vals.2.2.2.2.1, ch_vals.2.2.2.2.2.1]; rfl),
      scan_neutral (neutral_of_ne (by decide)), scan_neutral (neutral_of_ne (by decide)), ih,
      scan_neutral (neutral_of_ne (by decide))]

end DL.Rx
