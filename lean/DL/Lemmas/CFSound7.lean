import DL.Lemmas.CFSound6

/-! From the invariant to whole programs and to the `no-unreachable` rule layer. -/
namespace DL.CF

mutual
theorem Kid.flagged_flat (info : Info) : ∀ (k : Kid), k.flat = true → k.flagged info = []
  | .expr _ ks, h => by simp only [Kid.flagged]; exact Kids.flagged_flat info ks (by simpa [Kid.flat] using h)
  | .fnScope _ _, h => by simp [Kid.flat] at h
  | .block _ _, h => by simp [Kid.flat] at h
  | .stmt _, h => by simp [Kid.flat] at h
theorem Kids.flagged_flat (info : Info) : ∀ (ks : Kids), ks.flat = true → ks.flagged info = []
  | .nil, _ => rfl
  | .cons k r, h => by
    simp only [Kids.flat, Bool.and_eq_true] at h
    simp [Kids.flagged, Kid.flagged_flat info k h.1, Kids.flagged_flat info r h.2]
end

mutual
theorem Kid.inner_flat : ∀ (k : Kid) (p : Nat), k.flat = true → k.inner p = false
  | .expr _ ks, p, h => by simp only [Kid.inner]; exact Kids.inner_flat ks p (by simpa [Kid.flat] using h)
  | .fnScope _ _, _, h => by simp [Kid.flat] at h
  | .block _ _, _, h => by simp [Kid.flat] at h
  | .stmt _, _, h => by simp [Kid.flat] at h
theorem Kids.inner_flat : ∀ (ks : Kids) (p : Nat), ks.flat = true → ks.inner p = false
  | .nil, _, _ => rfl
  | .cons k r, p, h => by
    simp only [Kids.flat, Bool.and_eq_true] at h
    simp [Kids.inner, Kid.inner_flat k p h.1, Kids.inner_flat r p h.2]
end

theorem flagHere_sub (info : Info) (s : Stmt) (q : Nat) (h : q ∈ flagHere info s) : q = s.pos ∧ info.ur q = true := by
  unfold flagHere at h
  by_cases hc : (!exempt s && metaUnreach info s.pos) = true
  · rw [if_pos hc] at h
    simp only [List.mem_singleton] at h; subst h
    simp only [Bool.and_eq_true] at hc
    exact ⟨rfl, hc.2⟩
  · rw [if_neg hc] at h; cases h

mutual
theorem Stmt.flagged_sub (info : Info) : ∀ (s : Stmt), s.inF = true → ∀ q ∈ s.flagged info, q ∈ s.positions ∧ info.ur q = true
  | .simple p t kids, hf, q, hq => by
    simp only [Stmt.flagged, Kids.flagged_flat info kids (by simpa [Stmt.inF] using hf), List.append_nil] at hq
    have := flagHere_sub info _ q hq
    exact ⟨by simp [Stmt.positions, this.1, Stmt.pos], this.2⟩
  | .block p b, hf, q, hq => by
    simp only [Stmt.flagged] at hq
    have := Stmts.flagged_sub info b (by simpa [Stmt.inF] using hf) q hq
    exact ⟨by simp [Stmt.positions, this.1], this.2⟩
  | .ifS p t c none, hf, q, hq => by
    have hf' : t.flat = true ∧ c.inF = true := by simpa [Stmt.inF] using hf
    simp only [Stmt.flagged, Kids.flagged_flat info t hf'.1, List.append_nil, List.mem_append] at hq
    rcases hq with hq | hq
    · have := flagHere_sub info _ q hq; exact ⟨by simp [Stmt.positions, this.1, Stmt.pos], this.2⟩
    · have := Stmt.flagged_sub info c hf'.2 q hq; exact ⟨by simp [Stmt.positions, this.1], this.2⟩
  | .ifS p t c (some al), hf, q, hq => by
    have hf' : (t.flat = true ∧ c.inF = true) ∧ al.inF = true := by simpa [Stmt.inF] using hf
    simp only [Stmt.flagged, Kids.flagged_flat info t hf'.1.1, List.append_nil, List.mem_append] at hq
    rcases hq with (hq | hq) | hq
    · have := flagHere_sub info _ q hq; exact ⟨by simp [Stmt.positions, this.1, Stmt.pos], this.2⟩
    · have := Stmt.flagged_sub info c hf'.1.2 q hq; exact ⟨by simp [Stmt.positions, this.1], this.2⟩
    · have := Stmt.flagged_sub info al hf'.2 q hq; exact ⟨by simp [Stmt.positions, this.1], this.2⟩
  | .whileS p t tt b, hf, q, hq => by
    have hf' : t.flat = true ∧ b.inF = true := by simpa [Stmt.inF] using hf
    simp only [Stmt.flagged, Kids.flagged_flat info t hf'.1, List.append_nil, List.mem_append] at hq
    rcases hq with hq | hq
    · have := flagHere_sub info _ q hq; exact ⟨by simp [Stmt.positions, this.1, Stmt.pos], this.2⟩
    · have := Stmt.flagged_sub info b hf'.2 q hq; exact ⟨by simp [Stmt.positions, this.1], this.2⟩
  | .doWhileS p b t tt, hf, q, hq => by
    have hf' : t.flat = true ∧ b.inF = true := by simpa [Stmt.inF] using hf
    simp only [Stmt.flagged, Kids.flagged_flat info t hf'.1, List.append_nil, List.mem_append] at hq
    rcases hq with hq | hq
    · have := flagHere_sub info _ q hq; exact ⟨by simp [Stmt.positions, this.1, Stmt.pos], this.2⟩
    · have := Stmt.flagged_sub info b hf'.2 q hq; exact ⟨by simp [Stmt.positions, this.1], this.2⟩
  | .forS p i u t ht tt b, hf, q, hq => by
    have hf' : ((i.flat = true ∧ u.flat = true) ∧ t.flat = true) ∧ b.inF = true := by simpa [Stmt.inF] using hf
    simp only [Stmt.flagged, Kids.flagged_flat info i hf'.1.1.1, Kids.flagged_flat info u hf'.1.1.2,
      Kids.flagged_flat info t hf'.1.2, List.append_nil, List.mem_append] at hq
    rcases hq with hq | hq
    · have := flagHere_sub info _ q hq; exact ⟨by simp [Stmt.positions, this.1, Stmt.pos], this.2⟩
    · have := Stmt.flagged_sub info b hf'.2 q hq; exact ⟨by simp [Stmt.positions, this.1], this.2⟩
  | .forInOf p l r b, hf, q, hq => by
    have hf' : (l.flat = true ∧ r.flat = true) ∧ b.inF = true := by simpa [Stmt.inF] using hf
    simp only [Stmt.flagged, Kids.flagged_flat info l hf'.1.1, Kids.flagged_flat info r hf'.1.2,
      List.append_nil, List.mem_append] at hq
    rcases hq with hq | hq
    · have := flagHere_sub info _ q hq; exact ⟨by simp [Stmt.positions, this.1, Stmt.pos], this.2⟩
    · have := Stmt.flagged_sub info b hf'.2 q hq; exact ⟨by simp [Stmt.positions, this.1], this.2⟩
  | .brk p l, _, q, hq => by
    simp only [Stmt.flagged] at hq
    have := flagHere_sub info _ q hq; exact ⟨by simp [Stmt.positions, this.1, Stmt.pos], this.2⟩
  | .cont p l, _, q, hq => by
    simp only [Stmt.flagged] at hq
    have := flagHere_sub info _ q hq; exact ⟨by simp [Stmt.positions, this.1, Stmt.pos], this.2⟩
  | .ret p arg, hf, q, hq => by
    simp only [Stmt.flagged, Kids.flagged_flat info arg (by simpa [Stmt.inF] using hf), List.append_nil] at hq
    have := flagHere_sub info _ q hq; exact ⟨by simp [Stmt.positions, this.1, Stmt.pos], this.2⟩
  | .throw p arg, hf, q, hq => by
    simp only [Stmt.flagged, Kids.flagged_flat info arg (by simpa [Stmt.inF] using hf), List.append_nil] at hq
    have := flagHere_sub info _ q hq; exact ⟨by simp [Stmt.positions, this.1, Stmt.pos], this.2⟩
  | .switchS .., hf, _, _ => by simp [Stmt.inF] at hf
  | .tryS .., hf, _, _ => by simp [Stmt.inF] at hf
  | .labeled .., hf, _, _ => by simp [Stmt.inF] at hf
theorem Stmts.flagged_sub (info : Info) : ∀ (l : Stmts), l.inF = true → ∀ q ∈ l.flagged info, q ∈ l.positions ∧ info.ur q = true
  | .nil, _, q, hq => by simp [Stmts.flagged] at hq
  | .cons s r, hf, q, hq => by
    have hf' : s.inF = true ∧ r.inF = true := by simpa [Stmts.inF] using hf
    simp only [Stmts.flagged, List.mem_append] at hq
    rcases hq with hq | hq
    · have := Stmt.flagged_sub info s hf'.1 q hq; exact ⟨by simp [Stmts.positions, this.1], this.2⟩
    · have := Stmts.flagged_sub info r hf'.2 q hq; exact ⟨by simp [Stmts.positions, this.1], this.2⟩
end

mutual
theorem Stmt.inner_inF : ∀ (s : Stmt) (p : Nat), s.inF = true → s.inner p = false
  | .simple _ _ kids, p, hf => by simp only [Stmt.inner]; exact Kids.inner_flat kids p (by simpa [Stmt.inF] using hf)
  | .block _ b, p, hf => by simp only [Stmt.inner]; exact Stmts.inner_inF b p (by simpa [Stmt.inF] using hf)
  | .ifS _ t c none, p, hf => by
    have hf' : t.flat = true ∧ c.inF = true := by simpa [Stmt.inF] using hf
    simp [Stmt.inner, Kids.inner_flat t p hf'.1, Stmt.inner_inF c p hf'.2]
  | .ifS _ t c (some al), p, hf => by
    have hf' : (t.flat = true ∧ c.inF = true) ∧ al.inF = true := by simpa [Stmt.inF] using hf
    simp [Stmt.inner, Kids.inner_flat t p hf'.1.1, Stmt.inner_inF c p hf'.1.2, Stmt.inner_inF al p hf'.2]
  | .whileS _ t _ b, p, hf => by
    have hf' : t.flat = true ∧ b.inF = true := by simpa [Stmt.inF] using hf
    simp [Stmt.inner, Kids.inner_flat t p hf'.1, Stmt.inner_inF b p hf'.2]
  | .doWhileS _ b t _, p, hf => by
    have hf' : t.flat = true ∧ b.inF = true := by simpa [Stmt.inF] using hf
    simp [Stmt.inner, Kids.inner_flat t p hf'.1, Stmt.inner_inF b p hf'.2]
  | .forS _ i u t _ _ b, p, hf => by
    have hf' : ((i.flat = true ∧ u.flat = true) ∧ t.flat = true) ∧ b.inF = true := by simpa [Stmt.inF] using hf
    simp [Stmt.inner, Kids.inner_flat i p hf'.1.1.1, Kids.inner_flat u p hf'.1.1.2, Kids.inner_flat t p hf'.1.2,
      Stmt.inner_inF b p hf'.2]
  | .forInOf _ l r b, p, hf => by
    have hf' : (l.flat = true ∧ r.flat = true) ∧ b.inF = true := by simpa [Stmt.inF] using hf
    simp [Stmt.inner, Kids.inner_flat l p hf'.1.1, Kids.inner_flat r p hf'.1.2, Stmt.inner_inF b p hf'.2]
  | .brk .., _, _ => rfl
  | .cont .., _, _ => rfl
  | .ret _ arg, p, hf => by simp only [Stmt.inner]; exact Kids.inner_flat arg p (by simpa [Stmt.inF] using hf)
  | .throw _ arg, p, hf => by simp only [Stmt.inner]; exact Kids.inner_flat arg p (by simpa [Stmt.inF] using hf)
  | .switchS .., _, hf => by simp [Stmt.inF] at hf
  | .tryS .., _, hf => by simp [Stmt.inF] at hf
  | .labeled .., _, hf => by simp [Stmt.inF] at hf
theorem Stmts.inner_inF : ∀ (l : Stmts) (p : Nat), l.inF = true → l.inner p = false
  | .nil, _, _ => rfl
  | .cons s r, p, hf => by
    have hf' : s.inF = true ∧ r.inF = true := by simpa [Stmts.inF] using hf
    simp [Stmts.inner, Stmt.inner_inF s p hf'.1, Stmts.inner_inF r p hf'.2]
end

/-! ### whole programs: a list of top-level statements of the fragment -/
def stmtsOfList : List Stmt → Stmts
  | [] => .nil
  | s :: r => .cons s (stmtsOfList r)

/-- a script: `visit_stmts` over the body, which is exactly `visitStmts` -/
theorem analyze_script (ss : List Stmt) :
    analyze { isModule := false, items := ss.map .stmt } = (visitStmts (stmtsOfList ss) { sc := {}, info := Info.empty }).info := by
  unfold analyze
  simp only
  generalize ({ sc := {}, info := Info.empty } : A) = a0
  induction ss generalizing a0 with
  | nil => rfl
  | cons s r ih => simp only [List.map_cons, List.foldl_cons, stmtsOfList, visitStmts]; exact ih _

theorem itemsReach_script (ss : List Stmt) (p : Nat) : itemsReach (ss.map .stmt) p = (stmtsOfList ss).reach p := by
  induction ss with
  | nil => rfl
  | cons s r ih => simp [itemsReach, stmtsOfList, Stmts.reach, ih]

theorem itemsInner_script (ss : List Stmt) (p : Nat) : itemsInner (ss.map .stmt) p = (stmtsOfList ss).inner p := by
  induction ss with
  | nil => rfl
  | cons s r ih => simp [itemsInner, stmtsOfList, Stmts.inner, ih]

theorem flagged_script (ss : List Stmt) (info : Info) :
    Program.flagged { isModule := false, items := ss.map .stmt } info = (stmtsOfList ss).flagged info := by
  unfold Program.flagged
  simp only
  induction ss with
  | nil => rfl
  | cons s r ih => simp [stmtsOfList, Stmts.flagged, ih]

/-- **soundness of `no-unreachable` on the fragment**: in a script made of statements of the fragment, with pairwise
distinct statement positions, no flagged statement is reachable -/
theorem script_flagged_unreachable (ss : List Stmt) (hf : (stmtsOfList ss).inF = true)
    (hnd : (stmtsOfList ss).positions.Nodup) (p : Nat)
    (hp : p ∈ Program.flagged { isModule := false, items := ss.map .stmt } (analyze { isModule := false, items := ss.map .stmt })) :
    Program.reachable { isModule := false, items := ss.map .stmt } p = false := by
  rw [flagged_script, analyze_script] at hp
  have hpre : Pre true (stmtsOfList ss).positions { sc := {}, info := Info.empty } :=
    ⟨fun h => by simp at h, fun _ _ => rfl, hnd, Or.inl rfl⟩
  have hpost := visitStmts_ok (stmtsOfList ss) true _ hf hpre
  obtain ⟨hmem, hur⟩ := Stmts.flagged_sub _ (stmtsOfList ss) hf p hp
  have := hpost.p3 p hmem hur
  unfold Program.reachable
  simp only
  rw [itemsReach_script, itemsInner_script, Stmts.inner_inF _ p hf]
  simpa using this

end DL.CF
