import DL.Lemmas.CFSound6

/-! From the invariant to whole programs and to the `no-unreachable` rule layer. -/
namespace DL.CF

theorem flagHere_sub (info : Info) (s : Stmt) (q : Nat) (h : q ∈ flagHere info s) : q = s.pos ∧ info.ur q = true := by
  unfold flagHere at h
  by_cases hc : (!exempt s && metaUnreach info s.pos) = true
  · rw [if_pos hc] at h
    simp only [List.mem_singleton] at h; subst h
    simp only [Bool.and_eq_true] at hc
    exact ⟨rfl, hc.2⟩
  · rw [if_neg hc] at h; cases h

/-- the rule only reports statement positions (`upos`) whose metadata says `unreachable` (whole language) -/
def FlagSub (info : Info) (fl us : List Nat) : Prop := ∀ q ∈ fl, q ∈ us ∧ info.ur q = true

theorem FlagSub.here {info : Info} {s : Stmt} {p : Nat} {us : List Nat} (hp : s.pos = p) :
    FlagSub info (flagHere info s) (p :: us) := by
  intro q hq
  have := flagHere_sub info s q hq
  exact ⟨by simp [this.1, hp], this.2⟩

theorem FlagSub.append {info : Info} {f1 f2 u1 u2 : List Nat} (h1 : FlagSub info f1 u1) (h2 : FlagSub info f2 u2) :
    FlagSub info (f1 ++ f2) (u1 ++ u2) := by
  intro q hq
  rcases List.mem_append.mp hq with h | h
  · exact ⟨List.mem_append.mpr (Or.inl (h1 q h).1), (h1 q h).2⟩
  · exact ⟨List.mem_append.mpr (Or.inr (h2 q h).1), (h2 q h).2⟩

theorem FlagSub.cons {info : Info} {f1 f2 u2 : List Nat} {p : Nat} (h1 : FlagSub info f1 [p]) (h2 : FlagSub info f2 u2) :
    FlagSub info (f1 ++ f2) (p :: u2) := h1.append h2

theorem FlagSub.here1 {info : Info} {s : Stmt} {p : Nat} (hp : s.pos = p) : FlagSub info (flagHere info s) [p] :=
  FlagSub.here hp

mutual
theorem Stmt.flagged_sub (info : Info) : ∀ (s : Stmt), FlagSub info (s.flagged info) s.upos
  | .simple p t kids => by
    simp only [Stmt.flagged, Stmt.upos]; exact (FlagSub.here1 rfl).cons (Kids.flagged_sub info kids)
  | .block p b => by
    simp only [Stmt.flagged, Stmt.upos]
    intro q hq; have := Stmts.flagged_sub info b q hq; exact ⟨List.mem_cons_of_mem _ this.1, this.2⟩
  | .ifS p t c none => by
    simp only [Stmt.flagged, Stmt.upos, List.append_assoc]
    exact (FlagSub.here1 rfl).cons ((Kids.flagged_sub info t).append (Stmt.flagged_sub info c))
  | .ifS p t c (some al) => by
    simp only [Stmt.flagged, Stmt.upos, List.append_assoc]
    exact (FlagSub.here1 rfl).cons ((Kids.flagged_sub info t).append ((Stmt.flagged_sub info c).append (Stmt.flagged_sub info al)))
  | .whileS p t tt b => by
    simp only [Stmt.flagged, Stmt.upos, List.append_assoc]
    exact (FlagSub.here1 rfl).cons ((Kids.flagged_sub info t).append (Stmt.flagged_sub info b))
  | .doWhileS p b t tt => by
    simp only [Stmt.flagged, Stmt.upos, List.append_assoc]
    exact (FlagSub.here1 rfl).cons ((Kids.flagged_sub info t).append (Stmt.flagged_sub info b))
  | .forS p i u t ht tt b => by
    simp only [Stmt.flagged, Stmt.upos, List.append_assoc]
    have := (FlagSub.here1 (info := info) (s := .cont p none) (p := p) rfl).cons ((Kids.flagged_sub info i).append
      ((Kids.flagged_sub info u).append ((Kids.flagged_sub info t).append (Stmt.flagged_sub info b))))
    simpa only [List.append_assoc] using this
  | .forInOf p l r b => by
    simp only [Stmt.flagged, Stmt.upos, List.append_assoc]
    have := (FlagSub.here1 (info := info) (s := .cont p none) (p := p) rfl).cons ((Kids.flagged_sub info l).append
      ((Kids.flagged_sub info r).append (Stmt.flagged_sub info b)))
    simpa only [List.append_assoc] using this
  | .switchS p d cs => by
    simp only [Stmt.flagged, Stmt.upos, List.append_assoc]
    exact (FlagSub.here1 rfl).cons ((Kids.flagged_sub info d).append (Cases.flagged_sub info cs))
  | .tryS p bp b hh cp ck hf fp f => by
    simp only [Stmt.flagged, Stmt.upos, List.append_assoc]
    exact (FlagSub.here1 rfl).cons ((Stmts.flagged_sub info b).append ((Kids.flagged_sub info ck).append (Stmts.flagged_sub info f)))
  | .labeled p l b => by
    simp only [Stmt.flagged, Stmt.upos]; exact (FlagSub.here1 rfl).cons (Stmt.flagged_sub info b)
  | .brk p l => by simp only [Stmt.flagged, Stmt.upos]; exact FlagSub.here1 rfl
  | .cont p l => by simp only [Stmt.flagged, Stmt.upos]; exact FlagSub.here1 rfl
  | .ret p arg => by
    simp only [Stmt.flagged, Stmt.upos]; exact (FlagSub.here1 rfl).cons (Kids.flagged_sub info arg)
  | .throw p arg => by
    simp only [Stmt.flagged, Stmt.upos]; exact (FlagSub.here1 rfl).cons (Kids.flagged_sub info arg)
theorem Stmts.flagged_sub (info : Info) : ∀ (l : Stmts), FlagSub info (l.flagged info) l.upos
  | .nil => by simp [Stmts.flagged, FlagSub]
  | .cons s r => by
    simp only [Stmts.flagged, Stmts.upos]; exact (Stmt.flagged_sub info s).append (Stmts.flagged_sub info r)
theorem Kid.flagged_sub (info : Info) : ∀ (k : Kid), FlagSub info (k.flagged info) k.upos
  | .expr _ ks => by simp only [Kid.flagged, Kid.upos]; exact Kids.flagged_sub info ks
  | .fnScope _ ks => by simp only [Kid.flagged, Kid.upos]; exact Kids.flagged_sub info ks
  | .block _ b => by simp only [Kid.flagged, Kid.upos]; exact Stmts.flagged_sub info b
  | .stmt s => by simp only [Kid.flagged, Kid.upos]; exact Stmt.flagged_sub info s
theorem Kids.flagged_sub (info : Info) : ∀ (ks : Kids), FlagSub info (ks.flagged info) ks.upos
  | .nil => by simp [Kids.flagged, FlagSub]
  | .cons k r => by
    simp only [Kids.flagged, Kids.upos]; exact (Kid.flagged_sub info k).append (Kids.flagged_sub info r)
theorem Cases.flagged_sub (info : Info) : ∀ (cs : Cases), FlagSub info (cs.flagged info) cs.upos
  | .nil => by simp [Cases.flagged, FlagSub]
  | .cons _ _ t b r => by
    simp only [Cases.flagged, Cases.upos, List.append_assoc]
    exact (Kids.flagged_sub info t).append ((Stmts.flagged_sub info b).append (Cases.flagged_sub info r))
end

/-! ### whole programs: a list of top-level statements of the fragment -/
def stmtsOfList : List Stmt → Stmts
  | [] => .nil
  | s :: r => .cons s (stmtsOfList r)

/-- a script: `visit_stmts` over the body, which is exactly `visitStmts` -/
theorem analyze_script (ss : List Stmt) :
    analyze { isModule := false, items := ss.map .stmt } = (visitStmts (stmtsOfList ss) { sc := {}, info := Info.empty }).info := by
  unfold analyze
  simp only
  generalize ({ sc := {}, info := Info.empty } : A) = a0
  induction ss generalizing a0 with
  | nil => rfl
  | cons s r ih => simp only [List.map_cons, List.foldl_cons, stmtsOfList, visitStmts]; exact ih _

theorem itemsReach_script (ss : List Stmt) (p : Nat) : itemsReach (ss.map .stmt) p = (stmtsOfList ss).reach p := by
  induction ss with
  | nil => rfl
  | cons s r ih => simp [itemsReach, stmtsOfList, Stmts.reach, ih]

theorem itemsInner_script (ss : List Stmt) (p : Nat) : itemsInner (ss.map .stmt) p = (stmtsOfList ss).inner p := by
  induction ss with
  | nil => rfl
  | cons s r ih => simp [itemsInner, stmtsOfList, Stmts.inner, ih]

theorem flagged_script (ss : List Stmt) (info : Info) :
    Program.flagged { isModule := false, items := ss.map .stmt } info = (stmtsOfList ss).flagged info := by
  unfold Program.flagged
  simp only
  induction ss with
  | nil => rfl
  | cons s r ih => simp [stmtsOfList, Stmts.flagged, ih]

/-- **soundness of `no-unreachable` on the fragment**: in a script made of statements of the fragment (with functions
nested in expressions to any depth), with pairwise distinct positions, no flagged statement is reachable — neither from
the start of the script nor from the entry of any function in it -/
theorem script_flagged_unreachable (ss : List Stmt) (hf : (stmtsOfList ss).inF = true)
    (hnd : (stmtsOfList ss).positions.Nodup) (p : Nat)
    (hp : p ∈ Program.flagged { isModule := false, items := ss.map .stmt } (analyze { isModule := false, items := ss.map .stmt })) :
    Program.reachable { isModule := false, items := ss.map .stmt } p = false := by
  rw [flagged_script, analyze_script] at hp
  have hpre : Pre true (stmtsOfList ss).positions { sc := {}, info := Info.empty } :=
    ⟨fun h => by simp at h, fun _ _ => rfl, hnd⟩
  have hpost := visitStmts_ok (stmtsOfList ss) true _ hf hpre
  obtain ⟨hmem, hur⟩ := Stmts.flagged_sub _ (stmtsOfList ss) p hp
  have h1 := hpost.p3 p hmem hur
  have h2 := hpost.p3i p hmem hur
  unfold Program.reachable
  simp only
  rw [itemsReach_script, itemsInner_script, h2]
  simpa using h1

end DL.CF
