import DL.Lemmas.CFExec4

/-! **Completeness of the closed-form completions**: every completion computed by `Stmt.compl` is the outcome of a
derivation of the inductive semantics.  Inversion lemmas and the loops. -/
namespace DL.CF

theorem seq_has_inv {x y : Compl} {o : Outcome} (h : (x.seq y).has o = true) :
    (o ≠ .normal ∧ x.has o = true) ∨ (x.n = true ∧ y.has o = true) := by
  rw [has_seq] at h
  simp only [Bool.or_eq_true, Bool.and_eq_true] at h
  exact h.imp (fun h => ⟨(Outcome.abrupt_iff o).mp h.1, h.2⟩) id

theorem evalCompl_has_inv {ks : Kids} {o : Outcome} (h : (evalCompl ks).has o = true) : Eval ks o := by
  rw [has_evalCompl] at h
  rcases o with _ | l | l | _ | _ <;> simp at h
  · exact Eval.normal ks
  · exact Eval.thr ks h

/-- an abrupt completion of evaluating expressions is a throw -/
theorem evalCompl_abrupt_inv {ks : Kids} {o : Outcome} (ha : o ≠ .normal) (h : (evalCompl ks).has o = true) :
    o = .thr ∧ Eval ks .thr := by
  have := evalCompl_has_inv h
  cases this with
  | normal => exact absurd rfl ha
  | thr hm => exact ⟨rfl, Eval.thr ks hm⟩

theorem testCompl_abrupt_inv {tt : Bool} {ks : Kids} {o : Outcome} (ha : o ≠ .normal) (h : (testCompl tt ks).has o = true) :
    o = .thr ∧ tt = false ∧ Eval ks .thr := by
  rw [has_testCompl] at h
  rcases o with _ | l | l | _ | _ <;> simp at h
  · exact absurd rfl ha
  · exact ⟨rfl, h.1, Eval.thr ks h.2⟩

theorem exitsLoop_thr (ls : List Id) : Outcome.thr.exitsLoop ls = some .thr := rfl

/-! ### loops -/
theorem while_complete (ls : List Id) (p : Nat) (test : Kids) (tt : Bool) (body : Stmt) (o : Outcome)
    (ih : ∀ o', (body.compl []).has o' = true → Exec [] body o')
    (h : (Stmt.compl ls (.whileS p test tt body)).has o = true) : Exec ls (.whileS p test tt body) o := by
  simp only [Stmt.compl] at h
  rcases seq_has_inv h with ⟨ha, ht⟩ | ⟨_, hl⟩
  · obtain ⟨rfl, rfl, he⟩ := testCompl_abrupt_inv ha ht
    exact .while_testThrows he
  · rcases (has_loopCompl_iff _ _ _ _).mp hl with ⟨rfl, he⟩ | ⟨o1, h1, hx⟩
    · have : tt = false := by simpa using he
      subst this; exact .while_done
    · rw [has_union, Bool.or_eq_true] at h1
      rcases h1 with h1 | h1
      · exact .while_exit (ih o1 h1) hx
      · simp only [has_guard, has_abrupt, Bool.and_eq_true] at h1
        obtain ⟨hg, ha, ht⟩ := h1
        obtain ⟨rfl, rfl, he⟩ := testCompl_abrupt_inv ((Outcome.abrupt_iff o1).mp ha) ht
        obtain ⟨o2, h2, hc⟩ := (goesRound_iff _ _).mp hg
        rw [exitsLoop_thr, Option.some.injEq] at hx; subst hx
        exact .while_again (ih o2 h2) hc (.while_testThrows he)

theorem doWhile_complete (ls : List Id) (p : Nat) (body : Stmt) (test : Kids) (tt : Bool) (o : Outcome)
    (ih : ∀ o', (body.compl []).has o' = true → Exec [] body o')
    (h : (Stmt.compl ls (.doWhileS p body test tt)).has o = true) : Exec ls (.doWhileS p body test tt) o := by
  simp only [Stmt.compl] at h
  rcases (has_loopCompl_iff _ _ _ _).mp h with ⟨rfl, he⟩ | ⟨o1, h1, hx⟩
  · simp only [guard_n, testCompl_n, Bool.and_true, Bool.and_eq_true, Bool.not_eq_true'] at he
    obtain ⟨o2, h2, hc⟩ := (goesRound_iff _ _).mp he.1
    have := he.2; subst this
    exact .do_done (ih o2 h2) hc
  · rw [has_union, Bool.or_eq_true] at h1
    rcases h1 with h1 | h1
    · exact .do_exit (ih o1 h1) hx
    · simp only [has_abrupt, has_guard, Bool.and_eq_true] at h1
      obtain ⟨ha, hg, ht⟩ := h1
      obtain ⟨rfl, rfl, he⟩ := testCompl_abrupt_inv ((Outcome.abrupt_iff o1).mp ha) ht
      obtain ⟨o2, h2, hc⟩ := (goesRound_iff _ _).mp hg
      rw [exitsLoop_thr, Option.some.injEq] at hx; subst hx
      exact .do_testThrows (ih o2 h2) hc he

theorem forLoop_complete (ls : List Id) (u t : Kids) (ht tt : Bool) (body : Stmt) (o : Outcome)
    (ih : ∀ o', (body.compl []).has o' = true → Exec [] body o')
    (h : (forLoopC ls u t ht tt body).has o = true) : ExecFor ls u t ht tt body o := by
  simp only [forLoopC] at h
  rcases seq_has_inv h with ⟨ha, hte⟩ | ⟨_, hl⟩
  · obtain ⟨rfl, rfl, he⟩ := testCompl_abrupt_inv ha hte
    exact .testThrows he
  · rcases (has_loopCompl_iff _ _ _ _).mp hl with ⟨rfl, he⟩ | ⟨o1, h1, hx⟩
    · simp only [Bool.and_eq_true, Bool.not_eq_true'] at he
      obtain ⟨rfl, rfl⟩ := he
      exact .done
    · rw [has_union, Bool.or_eq_true] at h1
      rcases h1 with h1 | h1
      · exact .exit (ih o1 h1) hx
      · simp only [has_guard, has_abrupt, Bool.and_eq_true] at h1
        obtain ⟨hg, ha, hs⟩ := h1
        have ha' := (Outcome.abrupt_iff o1).mp ha
        obtain ⟨o2, h2, hc⟩ := (goesRound_iff _ _).mp hg
        rcases seq_has_inv hs with ⟨_, hu⟩ | ⟨_, hte⟩
        · obtain ⟨rfl, he⟩ := evalCompl_abrupt_inv ha' hu
          rw [exitsLoop_thr, Option.some.injEq] at hx; subst hx
          exact .updateThrows (ih o2 h2) hc he
        · obtain ⟨rfl, rfl, he⟩ := testCompl_abrupt_inv ha' hte
          rw [exitsLoop_thr, Option.some.injEq] at hx; subst hx
          exact .again (ih o2 h2) hc (.testThrows he)

theorem forIn_complete (ls : List Id) (l : Kids) (body : Stmt) (o : Outcome)
    (ih : ∀ o', (body.compl []).has o' = true → Exec [] body o')
    (h : (forInC ls l body).has o = true) : ExecForIn ls l body o := by
  simp only [forInC] at h
  rcases seq_has_inv h with ⟨ha, hl⟩ | ⟨_, hl⟩
  · obtain ⟨rfl, he⟩ := evalCompl_abrupt_inv ha hl
    exact .leftThrows he
  · rcases (has_loopCompl_iff _ _ _ _).mp hl with ⟨rfl, _⟩ | ⟨o1, h1, hx⟩
    · exact .done
    · rw [has_union, Bool.or_eq_true] at h1
      rcases h1 with h1 | h1
      · exact .exit (ih o1 h1) hx
      · simp only [has_abrupt, Bool.and_eq_true] at h1
        obtain ⟨rfl, he⟩ := evalCompl_abrupt_inv ((Outcome.abrupt_iff o1).mp h1.1) h1.2
        rw [exitsLoop_thr, Option.some.injEq] at hx; subst hx
        exact .leftThrows he

end DL.CF
