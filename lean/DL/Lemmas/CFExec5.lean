import DL.Lemmas.CFExec4

/-! **Completeness of the closed-form completions**: every completion computed by `Stmt.compl` is the outcome of a
derivation of the inductive semantics.  Inversion lemmas and the loops. -/
namespace DL.CF

theorem seq_has_inv {x y : Compl} {o : Outcome} (h : (x.seq y).has o = true) :
    (o ≠ .normal ∧ x.has o = true) ∨ (x.has .normal = true ∧ y.has o = true) := by
  rw [has_seq] at h
  simp only [Bool.or_eq_true, Bool.and_eq_true] at h
  exact h.imp (fun h => ⟨(Outcome.abrupt_iff o).mp h.1, h.2⟩) id

theorem testCompl_has_inv {tt : Bool} {t : Kids} {o : Outcome} (iht : ∀ o', t.compl.has o' = true → EvalKids t o')
    (h : (testCompl tt t).has o = true) : EvalTest tt t o := by
  rw [has_testCompl] at h
  cases tt with
  | false => exact .eval (iht o (by simpa using h))
  | true =>
    simp only [if_true] at h
    cases o <;> simp at h
    exact .known

theorem exitsLoop_abrupt (ls : List Id) (o o' : Outcome) (h : o.exitsLoop ls = some o') : True := trivial

/-- a throw of the test / update / binding while going round: the outcome is unchanged -/
theorem union_has_inv {x y : Compl} {o : Outcome} (h : (x.union y).has o = true) : x.has o = true ∨ y.has o = true := by
  rw [has_union] at h; exact (Bool.or_eq_true _ _).mp h

theorem guard_abrupt_inv {g : Bool} {y : Compl} {o : Outcome} (h : (Compl.guard g y.abrupt).has o = true) :
    g = true ∧ o ≠ .normal ∧ y.has o = true := by
  simp only [has_guard, has_abrupt, Bool.and_eq_true] at h
  exact ⟨h.1, (Outcome.abrupt_iff o).mp h.2.1, h.2.2⟩

theorem while_complete (ls : List Id) (p : Nat) (test : Kids) (tt : Bool) (body : Stmt) (o : Outcome)
    (ih : ∀ o', (body.compl []).has o' = true → Exec [] body o')
    (iht : ∀ o', test.compl.has o' = true → EvalKids test o')
    (h : (Stmt.compl ls (.whileS p test tt body)).has o = true) : Exec ls (.whileS p test tt body) o := by
  simp only [Stmt.compl, testComplOf_eq] at h
  rcases seq_has_inv h with ⟨ha, ht⟩ | ⟨htn, hl⟩
  · exact .while_testAbrupt (testCompl_has_inv iht ht) ha
  · have hT := testCompl_has_inv iht htn
    rcases union_has_inv hl with hl | hx
    · rcases (has_loopCompl_iff _ _ _ _).mp hl with ⟨rfl, he⟩ | ⟨o1, h1, hx⟩
      · have : tt = false := by simpa using he
        subst this; exact .while_done hT
      · exact .while_exit hT (ih o1 h1) hx
    · obtain ⟨hg, ha, ht⟩ := guard_abrupt_inv hx
      obtain ⟨o2, h2, hc⟩ := (goesRound_iff _ _).mp hg
      exact .while_again hT (ih o2 h2) hc (.while_testAbrupt (testCompl_has_inv iht ht) ha)

theorem doWhile_complete (ls : List Id) (p : Nat) (body : Stmt) (test : Kids) (tt : Bool) (o : Outcome)
    (ih : ∀ o', (body.compl []).has o' = true → Exec [] body o')
    (iht : ∀ o', test.compl.has o' = true → EvalKids test o')
    (h : (Stmt.compl ls (.doWhileS p body test tt)).has o = true) : Exec ls (.doWhileS p body test tt) o := by
  simp only [Stmt.compl, testComplOf_eq] at h
  rcases union_has_inv h with hl | hx
  · rcases (has_loopCompl_iff _ _ _ _).mp hl with ⟨rfl, he⟩ | ⟨o1, h1, hx⟩
    · simp only [guard_n, Bool.and_eq_true, Bool.not_eq_true'] at he
      obtain ⟨o2, h2, hc⟩ := (goesRound_iff _ _).mp he.1.1
      have := he.2; subst this
      exact .do_done (ih o2 h2) hc (testCompl_has_inv iht he.1.2)
    · exact .do_exit (ih o1 h1) hx
  · obtain ⟨hg, ha, ht⟩ : (goesRound ls (body.compl []) = true) ∧ o ≠ .normal ∧ (testCompl tt test).has o = true := by
      simp only [has_abrupt, has_guard, Bool.and_eq_true] at hx
      exact ⟨hx.2.1, (Outcome.abrupt_iff o).mp hx.1, hx.2.2⟩
    obtain ⟨o2, h2, hc⟩ := (goesRound_iff _ _).mp hg
    exact .do_testAbrupt (ih o2 h2) hc (testCompl_has_inv iht ht) ha

theorem forLoop_complete (ls : List Id) (u t : Kids) (ht tt : Bool) (body : Stmt) (o : Outcome)
    (ih : ∀ o', (body.compl []).has o' = true → Exec [] body o')
    (iht : ∀ o', t.compl.has o' = true → EvalKids t o')
    (ihu : ∀ o', u.compl.has o' = true → EvalKids u o')
    (h : (forLoopC ls u t ht tt body).has o = true) : ExecFor ls u t ht tt body o := by
  simp only [forLoopC] at h
  rcases seq_has_inv h with ⟨ha, hte⟩ | ⟨htn, hl⟩
  · exact .testAbrupt (testCompl_has_inv iht hte) ha
  · have hT := testCompl_has_inv iht htn
    rcases union_has_inv hl with hl | hx
    · rcases (has_loopCompl_iff _ _ _ _).mp hl with ⟨rfl, he⟩ | ⟨o1, h1, hx⟩
      · simp only [Bool.and_eq_true, Bool.not_eq_true'] at he
        obtain ⟨rfl, rfl⟩ := he
        exact .done hT
      · exact .exit hT (ih o1 h1) hx
    · obtain ⟨hg, ha, hs⟩ := guard_abrupt_inv hx
      obtain ⟨o2, h2, hc⟩ := (goesRound_iff _ _).mp hg
      rcases seq_has_inv hs with ⟨_, hu⟩ | ⟨hun, hte⟩
      · exact .updateAbrupt hT (ih o2 h2) hc (ihu o hu) ha
      · exact .again hT (ih o2 h2) hc (ihu .normal hun) (.testAbrupt (testCompl_has_inv iht hte) ha)

theorem forIn_complete (ls : List Id) (l : Kids) (body : Stmt) (o : Outcome)
    (ih : ∀ o', (body.compl []).has o' = true → Exec [] body o')
    (ihl : ∀ o', l.compl.has o' = true → EvalKids l o')
    (h : (forInC ls l body).has o = true) : ExecForIn ls l body o := by
  simp only [forInC] at h
  rcases seq_has_inv h with ⟨ha, hl⟩ | ⟨hln, hl⟩
  · exact .leftAbrupt (ihl o hl) ha
  · have hL := ihl .normal hln
    rcases union_has_inv hl with hl | hx
    · rcases (has_loopCompl_iff _ _ _ _).mp hl with ⟨rfl, _⟩ | ⟨o1, h1, hx⟩
      · exact .done hL
      · exact .exit hL (ih o1 h1) hx
    · simp only [has_abrupt, Bool.and_eq_true] at hx
      exact .leftAbrupt (ihl o hx.2) ((Outcome.abrupt_iff o).mp hx.1)

end DL.CF
