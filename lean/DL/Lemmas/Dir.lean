import DL.Model.Dir

/-! Helper lemmas about M-DIR. -/
namespace DL.Dir

theorem isPrefixOf?_append (w r : List Char) : w.isPrefixOf? (w ++ r) = some r := by
  induction w with
  | nil => simp [List.isPrefixOf?]
  | cons c w ih => simp [List.isPrefixOf?, ih]

/-- `trim_end` never removes a non-white-space head -/
theorem trimEnd_cons_of_not_ws (c : Char) (t : List Char) (h : isWs c = false) :
    ∃ r, trimEnd (c :: t) = c :: r := by
  simp only [trimEnd]
  cases trimEnd t with
  | nil => exact ⟨[], by simp [h]⟩
  | cons a r => exact ⟨a :: r, rfl⟩

theorem dropWhile_head_not (p : Char → Bool) (t : List Char) :
    t.dropWhile p = [] ∨ ∃ c r, t.dropWhile p = c :: r ∧ p c = false := by
  induction t with
  | nil => exact Or.inl rfl
  | cons c t ih =>
    simp only [List.dropWhile]
    cases h : p c
    · exact Or.inr ⟨c, t, rfl, h⟩
    · exact ih

/-- the trimmed text is empty or starts with a non-white-space character -/
theorem trim_head (t : List Char) : trim t = [] ∨ ∃ c r, trim t = c :: r ∧ isWs c = false := by
  unfold trim trimStart
  rcases dropWhile_head_not isWs t with h | ⟨c, r, h, hc⟩
  · rw [h]; exact Or.inl rfl
  · rw [h]
    obtain ⟨r', hr⟩ := trimEnd_cons_of_not_ws c r hc
    exact Or.inr ⟨c, r', hr, hc⟩

/-- the first word of a text that starts with a non-white-space character is a prefix of it -/
theorem firstWord_prefix (t : List Char) (w : List Char) (h : firstWord t = some w)
    (ht : t = [] ∨ ∃ c r, t = c :: r ∧ isWs c = false) : ∃ rest, t = w ++ rest := by
  unfold firstWord at h
  have hd : t.dropWhile isWs = t := by
    rcases ht with rfl | ⟨c, r, rfl, hc⟩
    · rfl
    · simp [List.dropWhile, hc]
  rw [hd] at h
  cases t with
  | nil => cases h
  | cons c r =>
    simp only [Option.some.injEq] at h
    exact ⟨(c :: r).dropWhile (fun c => !isWs c), by rw [← h]; exact (List.takeWhile_append_dropWhile).symm⟩

/-- `comment_text.strip_prefix(word).unwrap()` cannot fail: it is guarded by "the first whitespace-delimited word of
the trimmed text equals `word`" -/
theorem parseIgnore_never_panics (word : List Char) (kind : Kind) (text : List Char) :
    parseIgnorePanics word kind text = false := by
  unfold parseIgnorePanics
  split
  · rfl
  · cases hf : firstWord (trim text) with
    | none => rfl
    | some p =>
      simp only
      by_cases hp : p = word
      · subst hp
        obtain ⟨rest, hr⟩ := firstWord_prefix (trim text) p hf (trim_head text)
        rw [hr, isPrefixOf?_append]
        simp
      · simp [hp]

end DL.Dir
