import DL.Model.Regex

/-!
# Panic-freedom of the regular-expression validator: the logic

`Safe P m Q`: started in a state satisfying `P`, the computation `m` does not panic, and if it returns normally with
value `a` in state `s'` then `Q a s'`.  (`err` and `outOfFuel` outcomes abort the whole validation — `?` — so nothing
is required of their states.)

`Inv`: the reader invariant `end ≤ number of units` (`units` = scalar values in unicode mode, UTF-16 code units
otherwise).  It is what makes the two `.nth(i).unwrap()` in `Reader::at` safe.
-/
namespace DL.Rx

def Res.sat {α : Type} : Res α → (α → St → Prop) → Prop
  | .ok a s, Q => Q a s
  | .panic _ _, _ => False
  | .err _ _, _ => True
  | .outOfFuel _, _ => True

def Safe {α : Type} (P : St → Prop) (m : M α) (Q : α → St → Prop) : Prop :=
  ∀ s, P s → (m s).sat Q

/-- the units the reader indexes (`reader.rs:124-133`) -/
def Reader.units (r : Reader) : List Nat := if r.unicode then r.src else encodeUtf16 r.src

/-- the reader invariant -/
def Inv (s : St) : Prop := s.reader.end_ ≤ s.reader.units.length

instance (s : St) : Decidable (Inv s) := by unfold Inv; infer_instance

/-- `m` preserves the reader invariant and does not panic under it -/
abbrev OK {α : Type} (m : M α) : Prop := Safe Inv m (fun _ => Inv)

theorem Safe.pure {α : Type} {P : St → Prop} {Q : α → St → Prop} {a : α} (h : ∀ s, P s → Q a s) :
    Safe P (pure a : M α) Q := fun s hs => h s hs

theorem Safe.bind {α β : Type} {P : St → Prop} {R : α → St → Prop} {Q : β → St → Prop} {m : M α} {f : α → M β}
    (hm : Safe P m R) (hf : ∀ a, Safe (R a) (f a) Q) : Safe P (m >>= f) Q := by
  intro s hs
  have h1 := hm s hs
  show (M.bind m f s).sat Q
  unfold M.bind
  cases h : m s with
  | ok a s' => rw [h] at h1; exact hf a s' h1
  | err _ _ => trivial
  | panic _ _ => rw [h] at h1; exact h1
  | outOfFuel _ => trivial

theorem Safe.conseq {α : Type} {P P' : St → Prop} {Q Q' : α → St → Prop} {m : M α}
    (h : Safe P m Q) (hP : ∀ s, P' s → P s) (hQ : ∀ a s, Q a s → Q' a s) : Safe P' m Q' := by
  intro s hs
  have h1 := h s (hP s hs)
  cases h2 : m s with
  | ok a s' => rw [h2] at h1; exact hQ a s' h1
  | err _ _ => trivial
  | panic _ _ => rw [h2] at h1; exact h1
  | outOfFuel _ => trivial

theorem Safe.pre {α : Type} {P P' : St → Prop} {Q : α → St → Prop} {m : M α}
    (h : Safe P m Q) (hP : ∀ s, P' s → P s) : Safe P' m Q := h.conseq hP (fun _ _ h => h)

theorem Safe.post {α : Type} {P : St → Prop} {Q Q' : α → St → Prop} {m : M α}
    (h : Safe P m Q) (hQ : ∀ a s, Q a s → Q' a s) : Safe P m Q' := h.conseq (fun _ h => h) hQ

/-- a pure hypothesis can be pulled out of the precondition -/
theorem Safe.assume {α : Type} {P : St → Prop} {p : Prop} {Q : α → St → Prop} {m : M α}
    (h : p → Safe P m Q) : Safe (fun s => P s ∧ p) m Q := fun s hs => h hs.2 s hs.1

theorem Safe.getSt {P : St → Prop} : Safe P getSt (fun a s => a = s ∧ P s) := fun _ hs => ⟨rfl, hs⟩

theorem Safe.modSt {P : St → Prop} {Q : Unit → St → Prop} {f : St → St} (h : ∀ s, P s → Q () (f s)) :
    Safe P (modSt f) Q := fun s hs => h s hs

theorem Safe.fail {α : Type} {P : St → Prop} {Q : α → St → Prop} {msg : String} : Safe P (fail msg : M α) Q :=
  fun _ _ => trivial

theorem Safe.outOfFuel {α : Type} {P : St → Prop} {Q : α → St → Prop} : Safe P (outOfFuel : M α) Q :=
  fun _ _ => trivial

theorem Safe.ite {α : Type} {P : St → Prop} {Q : α → St → Prop} {c : Prop} [Decidable c] {a b : M α}
    (ha : c → Safe P a Q) (hb : ¬c → Safe P b Q) : Safe P (if c then a else b) Q := by
  by_cases h : c
  · rw [if_pos h]; exact ha h
  · rw [if_neg h]; exact hb h

theorem Safe.unwrap {α : Type} {P : St → Prop} {o : Option α} {why : String} (h : o.isSome = true) :
    Safe P (unwrap o why) (fun a s => o = some a ∧ P s) := by
  cases o with
  | none => cases h
  | some a => exact fun s hs => ⟨rfl, hs⟩

/-! ### the invariant-only forms (`Keeps I m`: `m` does not panic under `I` and re-establishes it) -/

abbrev Keeps {α : Type} (I : St → Prop) (m : M α) : Prop := Safe I m (fun _ => I)

theorem Keeps.pure {α : Type} {I : St → Prop} {a : α} : Keeps I (pure a : M α) := Safe.pure fun _ h => h

theorem Keeps.bind {α β : Type} {I : St → Prop} {m : M α} {f : α → M β} (hm : Keeps I m) (hf : ∀ a, Keeps I (f a)) :
    Keeps I (m >>= f) :=
  Safe.bind hm hf

theorem Keeps.getSt {I : St → Prop} : Keeps I getSt := Safe.getSt.post fun _ _ h => h.2

theorem Keeps.modSt {I : St → Prop} {f : St → St} (h : ∀ s, I s → I (f s)) : Keeps I (modSt f) := Safe.modSt h

theorem Keeps.fail {α : Type} {I : St → Prop} {msg : String} : Keeps I (fail msg : M α) := Safe.fail
theorem Keeps.outOfFuel {α : Type} {I : St → Prop} : Keeps I (outOfFuel : M α) := Safe.outOfFuel

theorem Keeps.ite {α : Type} {I : St → Prop} {c : Prop} [Decidable c] {a b : M α}
    (ha : c → Keeps I a) (hb : ¬c → Keeps I b) : Keeps I (if c then a else b) := Safe.ite ha hb

theorem Keeps.unwrap {α : Type} {I : St → Prop} {o : Option α} {why : String} (h : o.isSome = true) :
    Keeps I (unwrap o why) :=
  (Safe.unwrap h).post fun _ _ h => h.2

theorem Keeps.orM {I : St → Prop} {a b : M Bool} (ha : Keeps I a) (hb : Keeps I b) : Keeps I (a <or> b) := by
  unfold DL.Rx.orM
  exact Keeps.bind ha fun x => Keeps.ite (fun _ => Keeps.pure) (fun _ => hb)

theorem Keeps.andM {I : St → Prop} {a b : M Bool} (ha : Keeps I a) (hb : Keeps I b) : Keeps I (a <and> b) := by
  unfold DL.Rx.andM
  exact Keeps.bind ha fun x => Keeps.ite (fun _ => hb) (fun _ => Keeps.pure)

theorem OK.setInt {v : Int} : OK (setInt v) := Keeps.modSt fun _ h => h
theorem OK.setStr {v : List Nat} : OK (setStr v) := Keeps.modSt fun _ h => h

/-! ### the tactic -/

/-- closes `OK (f args)` for an `f` that already has its lemma; extended with `macro_rules` after each lemma -/
syntax "rx_known" : tactic
macro_rules | `(tactic| rx_known) => `(tactic| assumption)
macro_rules | `(tactic| rx_known) => `(tactic| exact Keeps.pure)
macro_rules | `(tactic| rx_known) => `(tactic| exact Keeps.getSt)
macro_rules | `(tactic| rx_known) => `(tactic| exact Keeps.fail)
macro_rules | `(tactic| rx_known) => `(tactic| exact Keeps.outOfFuel)
macro_rules | `(tactic| rx_known) => `(tactic| exact OK.setInt)
macro_rules | `(tactic| rx_known) => `(tactic| exact OK.setStr)

/-- one structural step on a goal `Safe Inv m (fun _ => Inv)`; everything is matched syntactically
(`with_reducible`), so no definition is unfolded behind the user's back -/
macro "rx_step" : tactic => `(tactic| (show Safe _ _ _; first
    | with_reducible refine Keeps.bind ?_ (fun _ => ?_)
    | with_reducible refine Keeps.ite (fun _ => ?_) (fun _ => ?_)
    | with_reducible refine Keeps.orM ?_ ?_
    | with_reducible refine Keeps.andM ?_ ?_
    | with_reducible refine Keeps.unwrap ?_
    | with_reducible rx_known
    | (with_reducible refine Keeps.modSt (I := Inv) ?_); exact fun _ h => h
    | split
    | dsimp only))

macro "rx_auto" : tactic => `(tactic| repeat' rx_step)

end DL.Rx
