import DL.Lemmas.RxBName2

/-! # Annex B (no `u` flag): `\k<…>`, group specifiers, `AtomEscape[~U, N]` -/
namespace DL.Rx
open DL.RxSpec DL.Gen.Unicode
attribute [local irreducible] isScalar
variable {src : List Nat} {K : Bool × Nat}

theorem consumeKGroupName_wb (n : Nat) (r : List Nat) (s : St) (h : BAt src K r s) :
    Wp (consumeKGroupName n s) (fun b s1 =>
      if b = true then ∃ r1 a, BAt src K r1 s1 ∧ (K.1 = true → RxSpecB.AtomEscape K.1 K.2 r r1 a) ∧ Track s s1 a
      else BAt src K r s1 ∧ KeepN s s1) := by
  unfold consumeKGroupName
  rx6_auto
  · rename_i m hat0 s1 hk r1 nm hat1 hgn hstr
    rw [if_pos rfl]
    refine ⟨r1, ⟨[], [nm]⟩, by rx6_at, fun hnf => RxSpecB.AtomEscape.named m r1 nm hnf hgn, ?_⟩
    refine ⟨?_, fun hn => ?_, fun x hx => ?_, fun x hx => ?_⟩
    · show s1.groupNames = s.groupNames ++ []
      rw [hk.gn, List.append_nil]; rfl
    · show s1.groupNames.Nodup
      rw [hk.gn]; exact hn
    · show x ∈ (if s1.backreferenceNames.contains s1.lastStrValue then s1.backreferenceNames
        else s1.backreferenceNames ++ [s1.lastStrValue])
      have hx' : x ∈ s1.backreferenceNames := by rw [hk.bn]; exact hx
      split
      · exact hx'
      · exact List.mem_append_left _ hx'
    · show x ∈ (if s1.backreferenceNames.contains s1.lastStrValue then s1.backreferenceNames
        else s1.backreferenceNames ++ [s1.lastStrValue])
      have hxn : x = nm := by simpa using hx
      subst hxn
      rw [hstr]
      split
      · rename_i hc; exact List.contains_iff_mem.mp hc
      · exact List.mem_append_right _ (List.mem_singleton.mpr rfl)
  · rw [if_neg (by decide)]
    exact ⟨h, KeepN.refl s⟩

theorem consumeGroupSpecifier_wb (n : Nat) (r : List Nat) (s : St) (h : BAt src K r s) :
    Wp (consumeGroupSpecifier n s) (fun b s1 =>
      if b = true then ∃ r1 nm, BAt src K r1 s1 ∧ RxSpecB.GroupSpecifier r r1 (some nm) ∧ Track s s1 ⟨[some nm], []⟩
      else BAt src K r s1 ∧ KeepN s s1) := by
  unfold consumeGroupSpecifier
  rx6_auto
  · rename_i m hat0 s1 hk r1 nm hat1 hgn hstr hc
    rw [if_pos rfl]
    refine ⟨r1, nm, by rx6_at, RxSpecB.GroupSpecifier.named m r1 nm hgn, ?_⟩
    have hnc : ¬ nm ∈ s1.groupNames := by
      intro hm
      rw [← hstr] at hm
      have : s1.groupNames.contains s1.lastStrValue = true := List.contains_iff_mem.mpr hm
      rw [this] at hc; cases hc
    refine ⟨?_, fun hn => ?_, fun x hx => ?_, fun x hx => nomatch hx⟩
    · show s1.groupNames ++ [s1.lastStrValue] = s.groupNames ++ [nm]
      rw [hk.gn, hstr]; rfl
    · show (s1.groupNames ++ [s1.lastStrValue]).Nodup
      rw [hstr]
      refine List.nodup_append.mpr ⟨by rw [hk.gn]; exact hn, (List.nodup_cons.mpr ⟨List.not_mem_nil, List.nodup_nil⟩), ?_⟩
      intro a ha b hb
      have : b = nm := by simpa using hb
      subst this
      intro hab; subst hab; exact hnc ha
    · show x ∈ s1.backreferenceNames
      rw [hk.bn]; exact hx
  · rw [if_neg (by decide)]
    exact ⟨h, KeepN.refl s⟩

theorem consumeAtomEscape_wb (hN : K.2 < 2 ^ 62) (hsrc : ∀ x ∈ src, x ≤ 0xFFFF) (n : Nat) (r : List Nat) (s : St)
    (h : BAt src K r s) :
    Wp (consumeAtomEscape n s) (fun b s1 =>
      if b = true then ∃ r1 a, BAt src K r1 s1 ∧ RxSpecB.AtomEscape K.1 K.2 r r1 a ∧ Track s s1 a
      else BAt src K r s1 ∧ KeepN s s1 ∧ ¬∃ r1 v, RxSpecB.CharacterEscape K.1 r r1 v) := by
  unfold consumeAtomEscape
  rx6_auto
  · rw [if_neg (by decide)]
    exact ⟨‹BAt src K r _›, by rx6_keep, ‹¬∃ r1 v, RxSpecB.CharacterEscape K.1 r r1 v›⟩
  · rw [if_neg (by decide)]
    exact ⟨‹BAt src K r _›, by rx6_keep, ‹¬∃ r1 v, RxSpecB.CharacterEscape K.1 r r1 v›⟩
  · rename_i s1 hk1 hat1 hnd s2 hk2 hat2 hnc s3 hk3 hat3 hnce hnf s4 r1 a hat4 hae htr
    rw [if_pos rfl]
    have hk : KeepN s s3 := (hk1.toN.trans hk2).trans hk3.toN
    exact ⟨r1, a, hat4, hae (hat3.nFlag'.symm.trans hnf), Track.pre hk htr⟩
  · rw [if_pos rfl]
    exact ⟨_, _, ‹BAt src K _ _›, RxSpecB.AtomEscape.character _ _ _ ‹RxSpecB.CharacterEscape K.1 r _ _›
      ‹¬∃ r' v', DecimalEscape r r' v' ∧ v' ≤ K.2› ‹¬∃ r', RxSpecB.CharacterClassEscape r r'›, Track.ofKeepN (by rx6_keep)⟩
  · rw [if_pos rfl]
    exact ⟨_, _, ‹BAt src K _ _›, RxSpecB.AtomEscape.characterClass _ _ ‹RxSpecB.CharacterClassEscape r _›, Track.ofKeepN (by rx6_keep)⟩
  · rw [if_pos rfl]
    exact ⟨_, _, ‹BAt src K _ _›, ‹RxSpecB.AtomEscape K.1 K.2 r _ Attr.nil›, Track.ofKeepN (by rx6_keep)⟩

end DL.Rx
