import DL.Lemmas.CFClaims11

/-!
# Why real programs satisfy `positions.Nodup`

The keys of the metadata map are source start positions.  `srcPositions` lists the positions of a piece of syntax in
source (pre-)order: a node first, then its parts left to right (`positions` lists some parts in visiting order instead:
the test of a `do-while` after its body, the update of a `for` before its test).  In the dump of a parsed program these
are strictly increasing — a node starts before everything inside it, and a part ends before the next one starts — except
for the one allowed coincidence: an expression/declaration statement and a function scope it starts with (`() => {…};`,
`function f(){…}`), which `positions` counts once.  Strictly increasing source positions give `positions.Nodup`.
-/
namespace DL.CF

mutual
def Stmt.srcPositions : Stmt → List Nat
  | .simple p t kids => if t.isDeclOrExpr && kids.fpos.contains p then kids.srcPositions else p :: kids.srcPositions
  | .block p b => p :: b.srcPositions
  | .ifS p t c none => p :: (t.srcPositions ++ c.srcPositions)
  | .ifS p t c (some a) => p :: (t.srcPositions ++ (c.srcPositions ++ a.srcPositions))
  | .whileS p t _ b => p :: (t.srcPositions ++ b.srcPositions)
  | .doWhileS p b t _ => p :: (b.srcPositions ++ t.srcPositions)
  | .forS p i u t _ _ b => p :: (i.srcPositions ++ (t.srcPositions ++ (u.srcPositions ++ b.srcPositions)))
  | .forInOf p l r b => p :: (l.srcPositions ++ (r.srcPositions ++ b.srcPositions))
  | .switchS p d cs => p :: (d.srcPositions ++ cs.srcPositions)
  | .tryS p bp b hh cp ck hf fp f =>
    p :: bp :: (b.srcPositions ++ ((optPos hh cp ++ ck.srcPositions) ++ (optPos hf fp ++ f.srcPositions)))
  | .labeled p _ b => p :: b.srcPositions
  | .brk p _ => [p]
  | .cont p _ => [p]
  | .ret p a => p :: a.srcPositions
  | .throw p a => p :: a.srcPositions
def Stmts.srcPositions : Stmts → List Nat
  | .nil => []
  | .cons s r => s.srcPositions ++ r.srcPositions
def Kid.srcPositions : Kid → List Nat
  | .expr _ ks => ks.srcPositions
  | .fnScope p ks => p :: ks.srcPositions
  | .block p b => p :: b.srcPositions
  | .stmt s => s.srcPositions
def Kids.srcPositions : Kids → List Nat
  | .nil => []
  | .cons k r => k.srcPositions ++ r.srcPositions
def Cases.srcPositions : Cases → List Nat
  | .nil => []
  | .cons p _ t b r => p :: (t.srcPositions ++ (b.srcPositions ++ r.srcPositions))
end

mutual
theorem Stmt.positions_perm : ∀ (s : Stmt), s.positions.Perm s.srcPositions
  | .simple p t kids => by
    simp only [Stmt.positions, Stmt.srcPositions]
    split
    · exact Kids.positions_perm kids
    · exact (Kids.positions_perm kids).cons p
  | .block p b => by simp only [Stmt.positions, Stmt.srcPositions]; exact (Stmts.positions_perm b).cons p
  | .ifS p t c none => by
    simp only [Stmt.positions, Stmt.srcPositions]
    exact ((Kids.positions_perm t).append (Stmt.positions_perm c)).cons p
  | .ifS p t c (some a) => by
    simp only [Stmt.positions, Stmt.srcPositions]
    exact ((Kids.positions_perm t).append ((Stmt.positions_perm c).append (Stmt.positions_perm a))).cons p
  | .whileS p t _ b => by
    simp only [Stmt.positions, Stmt.srcPositions]
    exact ((Kids.positions_perm t).append (Stmt.positions_perm b)).cons p
  | .doWhileS p b t _ => by
    simp only [Stmt.positions, Stmt.srcPositions]
    exact (((Kids.positions_perm t).append (Stmt.positions_perm b)).trans List.perm_append_comm).cons p
  | .forS p i u t _ _ b => by
    simp only [Stmt.positions, Stmt.srcPositions, List.append_assoc]
    refine List.Perm.cons p ((Kids.positions_perm i).append ?_)
    refine ((Kids.positions_perm u).append ((Kids.positions_perm t).append (Stmt.positions_perm b))).trans ?_
    exact List.perm_append_comm_assoc _ _ _
  | .forInOf p l r b => by
    simp only [Stmt.positions, Stmt.srcPositions, List.append_assoc]
    exact ((Kids.positions_perm l).append ((Kids.positions_perm r).append (Stmt.positions_perm b))).cons p
  | .switchS p d cs => by
    simp only [Stmt.positions, Stmt.srcPositions]
    exact ((Kids.positions_perm d).append (Cases.positions_perm cs)).cons p
  | .tryS p bp b hh cp ck hf fp f => by
    simp only [Stmt.positions, Stmt.srcPositions]
    exact (((Stmts.positions_perm b).append (((List.Perm.refl _).append (Kids.positions_perm ck)).append
      ((List.Perm.refl _).append (Stmts.positions_perm f)))).cons bp).cons p
  | .labeled p _ b => by simp only [Stmt.positions, Stmt.srcPositions]; exact (Stmt.positions_perm b).cons p
  | .brk p _ => List.Perm.refl _
  | .cont p _ => List.Perm.refl _
  | .ret p a => by simp only [Stmt.positions, Stmt.srcPositions]; exact (Kids.positions_perm a).cons p
  | .throw p a => by simp only [Stmt.positions, Stmt.srcPositions]; exact (Kids.positions_perm a).cons p
theorem Stmts.positions_perm : ∀ (l : Stmts), l.positions.Perm l.srcPositions
  | .nil => List.Perm.refl _
  | .cons s r => by
    simp only [Stmts.positions, Stmts.srcPositions]; exact (Stmt.positions_perm s).append (Stmts.positions_perm r)
theorem Kid.positions_perm : ∀ (k : Kid), k.positions.Perm k.srcPositions
  | .expr _ ks => by simp only [Kid.positions, Kid.srcPositions]; exact Kids.positions_perm ks
  | .fnScope p ks => by simp only [Kid.positions, Kid.srcPositions]; exact (Kids.positions_perm ks).cons p
  | .block p b => by simp only [Kid.positions, Kid.srcPositions]; exact (Stmts.positions_perm b).cons p
  | .stmt s => by simp only [Kid.positions, Kid.srcPositions]; exact Stmt.positions_perm s
theorem Kids.positions_perm : ∀ (ks : Kids), ks.positions.Perm ks.srcPositions
  | .nil => List.Perm.refl _
  | .cons k r => by
    simp only [Kids.positions, Kids.srcPositions]; exact (Kid.positions_perm k).append (Kids.positions_perm r)
theorem Cases.positions_perm : ∀ (cs : Cases), cs.positions.Perm cs.srcPositions
  | .nil => List.Perm.refl _
  | .cons p _ t b r => by
    simp only [Cases.positions, Cases.srcPositions]
    exact ((Kids.positions_perm t).append ((Stmts.positions_perm b).append (Cases.positions_perm r))).cons p
end

def Item.srcPositions : Item → List Nat
  | .stmt s => s.srcPositions
  | .decl kids => kids.srcPositions

def itemsSrcPositions : List Item → List Nat
  | [] => []
  | it :: r => it.srcPositions ++ itemsSrcPositions r

theorem itemsPositions_perm : ∀ (items : List Item), (itemsPositions items).Perm (itemsSrcPositions items)
  | [] => List.Perm.refl _
  | .stmt s :: r => by
    simp only [itemsPositions, itemsSrcPositions, Item.positions, Item.srcPositions]
    exact (Stmt.positions_perm s).append (itemsPositions_perm r)
  | .decl k :: r => by
    simp only [itemsPositions, itemsSrcPositions, Item.positions, Item.srcPositions]
    exact (Kids.positions_perm k).append (itemsPositions_perm r)

theorem nodup_of_increasing {l : List Nat} (h : l.Pairwise (· < ·)) : l.Nodup :=
  h.imp (fun h => Nat.ne_of_lt h)

/-- strictly increasing source positions (with the one allowed coincidence counted once) give the `Nodup` hypothesis -/
theorem Stmt.nodup_of_increasing (s : Stmt) (h : s.srcPositions.Pairwise (· < ·)) : s.positions.Nodup :=
  (Stmt.positions_perm s).nodup_iff.mpr (DL.CF.nodup_of_increasing h)

theorem Stmts.nodup_of_increasing (l : Stmts) (h : l.srcPositions.Pairwise (· < ·)) : l.positions.Nodup :=
  (Stmts.positions_perm l).nodup_iff.mpr (DL.CF.nodup_of_increasing h)

theorem items_nodup_of_increasing (items : List Item) (h : (itemsSrcPositions items).Pairwise (· < ·)) :
    (itemsPositions items).Nodup :=
  (itemsPositions_perm items).nodup_iff.mpr (DL.CF.nodup_of_increasing h)

end DL.CF
