import DL.Lemmas.RxIndPattern

/-! # History independence: `validate_pattern` from two arbitrary states -/
namespace DL.Rx
attribute [local irreducible] isScalar
set_option linter.unusedSimpArgs false

/-- the state after the three assignments at the head of `validate_pattern` / `reset` / `rewind`
(`validator.rs:195-197`, `reader.rs:46-51`, `reader.rs:58-59`): mode flags and ALL reader fields are overwritten -/
def prep (source : List Nat) (uFlag : Bool) (s : St) : St :=
  { s with
    strict := uFlag, uFlag := uFlag && true, nFlag := uFlag && true,
    reader := { unicode := uFlag, src := source, index := 0,
                end_ := if uFlag then source.length else (encodeUtf16 source).length, cps := [] } }

/-- the rest of `validate_pattern` -/
def afterPrep (fuel : Nat) : M Unit := do
  rewindLoop 0 4 0
  consumePattern fuel
  let s ← getSt
  if !s.nFlag && true && !s.groupNames.isEmpty then
    modSt fun s => { s with nFlag := true }
    rewind 0
    consumePattern fuel

theorem validatePattern_eq (fuel : Nat) (source : List Nat) (uFlag : Bool) (st : St) :
    validatePattern fuel source uFlag st = afterPrep fuel (prep source uFlag st) := rfl

theorem I.afterPrep {c : Bool} (W : RegSet) (fuel : Nat) : Ind c W (afterPrep fuel) (fun _ => W) := by
  unfold DL.Rx.afterPrep; rx2_auto

theorem none_absurd {r : Reg} {p : Prop} (h : RegSet.none r = true) : p := by cases h

theorem prep_eqv (source : List Nat) (uFlag : Bool) (st st' : St) (h : st.overflowChecks = st'.overflowChecks) :
    Eqv st.overflowChecks RegSet.none (prep source uFlag st) (prep source uFlag st') :=
  ⟨rfl, h.symm, rfl, rfl, rfl, rfl, none_absurd, none_absurd, none_absurd, none_absurd, none_absurd, none_absurd,
    none_absurd, none_absurd, none_absurd, none_absurd⟩

/-- same outcome (constructor, value, message), and both final states keep the build-profile constant -/
def Sim (c : Bool) {α : Type} : Res α → Res α → Prop
  | .ok a s, .ok a' s' => a = a' ∧ Exit c s s'
  | .err m s, .err m' s' => m = m' ∧ Exit c s s'
  | .panic m s, .panic m' s' => m = m' ∧ Exit c s s'
  | .outOfFuel s, .outOfFuel s' => Exit c s s'
  | _, _ => False

theorem RelRes.sim {c : Bool} {α : Type} {Q : α → RegSet} {r r' : Res α} (h : RelRes c Q r r') : Sim c r r' := by
  cases r <;> cases r' <;> first | exact h.elim | exact h | exact ⟨h.1, h.2.oc, h.2.oc'⟩

theorem validatePattern_sim (fuel : Nat) (source : List Nat) (uFlag : Bool) (st st' : St)
    (h : st.overflowChecks = st'.overflowChecks) :
    Sim st.overflowChecks (validatePattern fuel source uFlag st) (validatePattern fuel source uFlag st') := by
  rw [validatePattern_eq, validatePattern_eq]
  exact (I.afterPrep RegSet.none fuel _ _ (prep_eqv source uFlag st st' h)).sim

end DL.Rx
