import DL.Lemmas.RxSpecPrim
import DL.Model.RegexSpecB

/-! # Annex B (no `u` flag): the symbolic state `BAt` and the primitive steps (a copy of the ones for `UAt`) -/
namespace DL.Rx

/-- the validator without the `u` flag reads the code units `src`; `K.1` is `n_flag`, `K.2` the number of groups counted;
`r` is the input that remains -/
def BAt (src : List Nat) (K : Bool × Nat) (r : List Nat) (s : St) : Prop :=
  RInv src s.reader ∧ src.drop s.reader.index = r ∧ s.uFlag = false ∧ s.strict = false ∧ s.nFlag = K.1 ∧
    s.numCapturingParens = K.2

variable {src : List Nat} {K : Bool × Nat} {α β : Type}

theorem BAt.uFlag' {r : List Nat} {s : St} (h : BAt src K r s) : s.uFlag = false := h.2.2.1
theorem BAt.strict' {r : List Nat} {s : St} (h : BAt src K r s) : s.strict = false := h.2.2.2.1
theorem BAt.nFlag' {r : List Nat} {s : St} (h : BAt src K r s) : s.nFlag = K.1 := h.2.2.2.2.1
theorem BAt.ncp {r : List Nat} {s : St} (h : BAt src K r s) : s.numCapturingParens = K.2 := h.2.2.2.2.2

theorem BAt.inv {r : List Nat} {s : St} (h : BAt src K r s) : RInv src s.reader := h.1
theorem BAt.rest {r : List Nat} {s : St} (h : BAt src K r s) : src.drop s.reader.index = r := h.2.1

theorem BAt.lt {x : Nat} {r : List Nat} {s : St} (h : BAt src K (x :: r) s) : s.reader.index < src.length := by
  have h1 := h.rest
  have h2 : (src.drop s.reader.index).length = src.length - s.reader.index := List.length_drop ..
  rw [h1] at h2; simp only [List.length_cons] at h2; omega

theorem BAt.eq_end {s : St} (h : BAt src K [] s) : s.reader.index = src.length := by
  have h1 := h.rest
  have h2 : (src.drop s.reader.index).length = src.length - s.reader.index := List.length_drop ..
  rw [h1] at h2; simp only [List.length_nil] at h2
  have := h.inv.le; omega

/-- after consuming one unit -/
theorem BAt.step {x : Nat} {r : List Nat} {s : St} (h : BAt src K (x :: r) s) :
    BAt src K r (s.setPos src (s.reader.index + 1)) := by
  refine ⟨RInv.setPos h.inv.toRStatic h.lt, ?_, h.2.2.1, h.2.2.2.1, h.2.2.2.2.1, h.2.2.2.2.2⟩
  show src.drop (s.reader.index + 1) = r
  rw [← List.tail_drop, h.rest]; rfl

/-- after `rewind` to the position of an earlier state -/
theorem BAt.back {r r0 : List Nat} {s s0 : St} (h : BAt src K r s) (h0 : BAt src K r0 s0) :
    BAt src K r0 (s.setPos src s0.reader.index) :=
  ⟨RInv.setPos h.inv.toRStatic h0.inv.le, h0.rest, h.2.2.1, h.2.2.2.1, h.2.2.2.2.1, h.2.2.2.2.2⟩

/-- after `rewind` to a position described by plain facts -/
theorem BAt.back' {r r0 : List Nat} {s : St} {i : Nat} (h : BAt src K r s) (hle : i ≤ src.length)
    (hr : src.drop i = r0) : BAt src K r0 (s.setPos src i) :=
  ⟨RInv.setPos h.inv.toRStatic hle, hr, h.2.2.1, h.2.2.2.1, h.2.2.2.2.1, h.2.2.2.2.2⟩

/-- record updates outside the reader and the mode fields keep `BAt` -/
theorem BAt.of_eq {r : List Nat} {s s' : St} (h : BAt src K r s) (h1 : s'.reader = s.reader) (h2 : s'.uFlag = s.uFlag)
    (h3 : s'.strict = s.strict) (h4 : s'.nFlag = s.nFlag) (h5 : s'.numCapturingParens = s.numCapturingParens) :
    BAt src K r s' := by
  unfold BAt at *
  rw [h1, h2, h3, h4, h5]; exact h

theorem BAt.cps {r : List Nat} {s : St} (h : BAt src K r s) : s.reader.cps = r.take 4 := by
  rw [h.inv.cps_eq, h.rest]

/-! ### `Wp` rules in continuation-passing form -/

/-- look-ahead at offset 0, with the case distinction on the remaining input -/
theorem WpB.bind_cpo0 {r : List Nat} {g : Option Nat → M β} {s : St} {Q : β → St → Prop} (h : BAt src K r s)
    (hnil : r = [] → Wp (g none s) Q) (hcons : ∀ x r', r = x :: r' → Wp (g (some x) s) Q) :
    Wp ((codePointWithOffset 0 >>= g) s) Q := by
  show Wp (g (s.reader.cps[0]?) s) Q
  rw [h.cps]
  cases r with
  | nil => exact hnil rfl
  | cons x r' => exact hcons x r' rfl

theorem WpB.bind_cpo {r : List Nat} {k : Nat} {g : Option Nat → M β} {s : St} {Q : β → St → Prop} (h : BAt src K r s)
    (hk : k < 4) (hg : Wp (g r[k]? s) Q) : Wp ((codePointWithOffset k >>= g) s) Q := by
  show Wp (g (s.reader.cps[k]?) s) Q
  rw [h.cps, List.getElem?_take, if_pos hk]; exact hg

theorem WpB.bind_advance_cons {x : Nat} {r : List Nat} {g : Unit → M β} {s : St} {Q : β → St → Prop}
    (h : BAt src K (x :: r) s)
    (hg : BAt src K r (s.setPos src (s.reader.index + 1)) → Wp (g () (s.setPos src (s.reader.index + 1))) Q) :
    Wp ((advance >>= g) s) Q := by
  show Wp (M.bind advance g s) Q
  unfold M.bind
  rw [advance_eq h.inv h.lt]; exact hg h.step

theorem WpB.bind_advance_nil {g : Unit → M β} {s : St} {Q : β → St → Prop}
    (h : BAt src K [] s) (hg : Wp (g () s) Q) : Wp ((advance >>= g) s) Q := by
  show Wp (M.bind advance g s) Q
  unfold M.bind
  rw [advance_end h.inv h.eq_end]; exact hg

theorem WpB.bind_rewind {r r0 : List Nat} {g : Unit → M β} {s s0 : St} {Q : β → St → Prop}
    (h : BAt src K r s) (h0 : BAt src K r0 s0)
    (hg : BAt src K r0 (s.setPos src s0.reader.index) → Wp (g () (s.setPos src s0.reader.index)) Q) :
    Wp ((rewind s0.reader.index >>= g) s) Q := by
  show Wp (M.bind (rewind s0.reader.index) g s) Q
  unfold M.bind
  rw [rewind_eq h.inv.toRStatic]; exact hg (h.back h0)

theorem WpB.bind_rewind' {r : List Nat} {i : Nat} {g : Unit → M β} {s : St} {Q : β → St → Prop}
    (h : BAt src K r s) (hle : i ≤ src.length)
    (hg : BAt src K (src.drop i) (s.setPos src i) → Wp (g () (s.setPos src i)) Q) : Wp ((rewind i >>= g) s) Q := by
  show Wp (M.bind (rewind i) g s) Q
  unfold M.bind
  rw [rewind_eq h.inv.toRStatic]; exact hg (h.back' hle rfl)

theorem Beat_cons {r : List Nat} {s : St} (h : BAt src K (ch x :: r) s) :
    eat x s = .ok true (s.setPos src (s.reader.index + 1)) := by
  show (match s.reader.cps with
    | c :: _ => if (c == ch x) = true then (advance >>= fun _ => (Pure.pure true : M Bool)) else Pure.pure false
    | [] => Pure.pure false) s = _
  rw [h.cps]
  show (if (ch x == ch x) = true then (advance >>= fun _ => (Pure.pure true : M Bool)) else Pure.pure false) s = _
  rw [if_pos (by simp)]
  show M.bind advance _ s = _
  unfold M.bind
  rw [advance_eq h.inv h.lt]; rfl

theorem Beat_ne {r : List Nat} {s : St} (h : BAt src K r s) (hne : r.head? ≠ some (ch x)) : eat x s = .ok false s := by
  show (match s.reader.cps with
    | c :: _ => if (c == ch x) = true then (advance >>= fun _ => (Pure.pure true : M Bool)) else Pure.pure false
    | [] => Pure.pure false) s = _
  rw [h.cps]
  cases r with
  | nil => rfl
  | cons y r' =>
    show (if (y == ch x) = true then _ else (Pure.pure false : M Bool)) s = _
    rw [if_neg]; · rfl
    intro hy; apply hne
    have : y = ch x := by simpa using hy
    rw [this]; rfl

/-- `eat`: either the next unit is `x` and it is consumed, or nothing happens -/
theorem WpB.bind_eat {r : List Nat} {x : Char} {g : Bool → M β} {s : St} {Q : β → St → Prop} (h : BAt src K r s)
    (ht : ∀ r', r = ch x :: r' → BAt src K r' (s.setPos src (s.reader.index + 1)) →
      Wp (g true (s.setPos src (s.reader.index + 1))) Q)
    (hf : r.head? ≠ some (ch x) → Wp (g false s) Q) : Wp ((eat x >>= g) s) Q := by
  show Wp (M.bind (eat x) g s) Q
  unfold M.bind
  by_cases hx : r.head? = some (ch x)
  · cases r with
    | nil => cases hx
    | cons y r' =>
      have : y = ch x := by simpa using hx
      subst this
      rw [Beat_cons h]; exact ht r' rfl h.step
  · rw [Beat_ne h hx]; exact hf hx

theorem BAt.step2 {x y : Nat} {r : List Nat} {s : St} (h : BAt src K (x :: y :: r) s) :
    BAt src K r (s.setPos src (s.reader.index + 2)) := by
  have := h.step.step
  exact this

theorem BAt.step3 {x y z : Nat} {r : List Nat} {s : St} (h : BAt src K (x :: y :: z :: r) s) :
    BAt src K r (s.setPos src (s.reader.index + 3)) := by
  have := h.step.step.step
  exact this

theorem Beat2_cons {r : List Nat} {s : St} (h : BAt src K (ch x :: ch y :: r) s) :
    eat2 x y s = .ok true (s.setPos src (s.reader.index + 2)) := by
  show (match s.reader.cps with
    | c1 :: c2 :: _ => if (c1 == ch x && c2 == ch y) = true then
        (advance >>= fun _ => advance >>= fun _ => (Pure.pure true : M Bool)) else Pure.pure false
    | _ => Pure.pure false) s = _
  rw [h.cps]
  show (if (ch x == ch x && ch y == ch y) = true then
    (advance >>= fun _ => advance >>= fun _ => (Pure.pure true : M Bool)) else Pure.pure false) s = _
  rw [if_pos (by simp)]
  show M.bind advance _ s = _
  unfold M.bind
  rw [advance_eq h.inv h.lt]
  show M.bind advance _ (s.setPos src (s.reader.index + 1)) = _
  unfold M.bind
  rw [advance_eq h.step.inv h.step.lt]; rfl

theorem Beat2_ne {r : List Nat} {s : St} (h : BAt src K r s) (hne : ¬∃ r', r = ch x :: ch y :: r') :
    eat2 x y s = .ok false s := by
  show (match s.reader.cps with
    | c1 :: c2 :: _ => if (c1 == ch x && c2 == ch y) = true then
        (advance >>= fun _ => advance >>= fun _ => (Pure.pure true : M Bool)) else Pure.pure false
    | _ => Pure.pure false) s = _
  rw [h.cps]
  rcases r with _ | ⟨a, _ | ⟨b, t⟩⟩
  · rfl
  · rfl
  · show (if (a == ch x && b == ch y) = true then _ else (Pure.pure false : M Bool)) s = _
    rw [if_neg]; · rfl
    intro hc
    simp only [Bool.and_eq_true, beq_iff_eq] at hc
    exact hne ⟨t, by rw [hc.1, hc.2]⟩

theorem WpB.bind_eat2 {r : List Nat} {x y : Char} {g : Bool → M β} {s : St} {Q : β → St → Prop} (h : BAt src K r s)
    (ht : ∀ r', r = ch x :: ch y :: r' → BAt src K r' (s.setPos src (s.reader.index + 2)) →
      Wp (g true (s.setPos src (s.reader.index + 2))) Q)
    (hf : (¬∃ r', r = ch x :: ch y :: r') → Wp (g false s) Q) : Wp ((eat2 x y >>= g) s) Q := by
  show Wp (M.bind (eat2 x y) g s) Q
  unfold M.bind
  by_cases hx : ∃ r', r = ch x :: ch y :: r'
  · obtain ⟨r', rfl⟩ := hx
    rw [Beat2_cons h]; exact ht r' rfl h.step2
  · rw [Beat2_ne h hx]; exact hf hx

theorem Beat3_cons {r : List Nat} {s : St} (h : BAt src K (ch x :: ch y :: ch z :: r) s) :
    eat3 x y z s = .ok true (s.setPos src (s.reader.index + 3)) := by
  show (match s.reader.cps with
    | c1 :: c2 :: c3 :: _ => if (c1 == ch x && c2 == ch y && c3 == ch z) = true then
        (advance >>= fun _ => advance >>= fun _ => advance >>= fun _ => (Pure.pure true : M Bool)) else Pure.pure false
    | _ => Pure.pure false) s = _
  rw [h.cps]
  show (if (ch x == ch x && ch y == ch y && ch z == ch z) = true then
    (advance >>= fun _ => advance >>= fun _ => advance >>= fun _ => (Pure.pure true : M Bool))
    else Pure.pure false) s = _
  rw [if_pos (by simp)]
  show M.bind advance _ s = _
  unfold M.bind
  rw [advance_eq h.inv h.lt]
  show M.bind advance _ (s.setPos src (s.reader.index + 1)) = _
  unfold M.bind
  rw [advance_eq h.step.inv h.step.lt]
  show M.bind advance _ ((s.setPos src (s.reader.index + 1)).setPos src
    ((s.setPos src (s.reader.index + 1)).reader.index + 1)) = _
  unfold M.bind
  rw [advance_eq h.step.step.inv h.step.step.lt]; rfl

theorem Beat3_ne {r : List Nat} {s : St} (h : BAt src K r s) (hne : ¬∃ r', r = ch x :: ch y :: ch z :: r') :
    eat3 x y z s = .ok false s := by
  show (match s.reader.cps with
    | c1 :: c2 :: c3 :: _ => if (c1 == ch x && c2 == ch y && c3 == ch z) = true then
        (advance >>= fun _ => advance >>= fun _ => advance >>= fun _ => (Pure.pure true : M Bool)) else Pure.pure false
    | _ => Pure.pure false) s = _
  rw [h.cps]
  rcases r with _ | ⟨a, _ | ⟨b, _ | ⟨c', t⟩⟩⟩
  · rfl
  · rfl
  · rfl
  · show (if (a == ch x && b == ch y && c' == ch z) = true then _ else (Pure.pure false : M Bool)) s = _
    rw [if_neg]; · rfl
    intro hc
    simp only [Bool.and_eq_true, beq_iff_eq] at hc
    exact hne ⟨t, by rw [hc.1.1, hc.1.2, hc.2]⟩

theorem WpB.bind_eat3 {r : List Nat} {x y z : Char} {g : Bool → M β} {s : St} {Q : β → St → Prop} (h : BAt src K r s)
    (ht : ∀ r', r = ch x :: ch y :: ch z :: r' → BAt src K r' (s.setPos src (s.reader.index + 3)) →
      Wp (g true (s.setPos src (s.reader.index + 3))) Q)
    (hf : (¬∃ r', r = ch x :: ch y :: ch z :: r') → Wp (g false s) Q) : Wp ((eat3 x y z >>= g) s) Q := by
  show Wp (M.bind (eat3 x y z) g s) Q
  unfold M.bind
  by_cases hx : ∃ r', r = ch x :: ch y :: ch z :: r'
  · obtain ⟨r', rfl⟩ := hx
    rw [Beat3_cons h]; exact ht r' rfl h.step3
  · rw [Beat3_ne h hx]; exact hf hx



theorem WpB.bind_eat_ne {r : List Nat} {x : Char} {g : Bool → M β} {s : St} {Q : β → St → Prop} (h : BAt src K r s)
    (hne : r.head? ≠ some (ch x)) (hf : Wp (g false s) Q) : Wp ((eat x >>= g) s) Q := by
  show Wp (M.bind (eat x) g s) Q
  unfold M.bind
  rw [Beat_ne h hne]; exact hf

theorem WpB.bind_eat2_ne {r : List Nat} {x y : Char} {g : Bool → M β} {s : St} {Q : β → St → Prop} (h : BAt src K r s)
    (hne : ¬∃ r', r = ch x :: ch y :: r') (hf : Wp (g false s) Q) : Wp ((eat2 x y >>= g) s) Q := by
  show Wp (M.bind (eat2 x y) g s) Q
  unfold M.bind
  rw [Beat2_ne h hne]; exact hf

theorem WpB.bind_eat3_ne {r : List Nat} {x y z : Char} {g : Bool → M β} {s : St} {Q : β → St → Prop} (h : BAt src K r s)
    (hne : ¬∃ r', r = ch x :: ch y :: ch z :: r') (hf : Wp (g false s) Q) : Wp ((eat3 x y z >>= g) s) Q := by
  show Wp (M.bind (eat3 x y z) g s) Q
  unfold M.bind
  rw [Beat3_ne h hne]; exact hf

end DL.Rx
