import DL.Lemmas.CFClaims5

/-! The claims of the rule layers: expressions, function scopes and their bodies. -/
namespace DL.CF

theorem expr_claims (e : EKind) (ks : Kids) (a : A) (h : KClaims ks (visitKids ks a).info) :
    KdClaims (.expr e ks) (visitKid (.expr e ks) a).info := by
  simp only [visitKid, exprEffect_info]
  exact h.mono (fun q hq => by simpa [Kid.stopViol] using hq) (fun c hc => by simpa [Kid.swCases] using hc)
    (fun g hg => by simpa [Kid.getters] using hg)

/-- a function body block: its metadata stops only if the body cannot complete normally -/
theorem Kids.fnBodies_ok (p : Nat) : ∀ (ks : Kids) (x : A), ks.okFn = true → PreK ks.positions x → x.sc.end_ = none →
    ∀ g ∈ ks.fnBodies p, metaStops (visitKids ks x).info g.bodyP = true → g.body.compl.n = false
  | .nil, _, _, _, _, g, hg, _ => by simp [Kids.fnBodies] at hg
  | .cons (.block q body) .nil, x, hf, hpre, he, g, hg, hst => by
    have hf' : body.inF = true := by simpa [Kids.okFn, Kids.isNil] using hf
    simp only [Kids.fnBodies, List.mem_singleton] at hg
    subst hg
    simp only [visitKids, visitKid, metaStops_eq] at hst
    have hpos : (Kids.cons (.block q body) .nil).positions = q :: body.positions := by simp [Kids.positions, Kid.positions]
    rw [hpos] at hpre
    have hnd := List.nodup_cons.mp hpre.nodup
    have hb := visitStmts_ok body true x hf'
      ⟨fun h => by rw [he] at h; simp at h, fun u hu => hpre.fresh u (List.mem_cons_of_mem _ hu), hnd.2⟩
    unfold blockTail at hst
    have : stopsEnd (visitStmts body x).sc.end_ = true := by
      rcases markAsEnd_self_stops _ _ _ hst with h | h
      · exact h
      · rw [getD_cont_stops] at h; exact h
    simpa using hb.p1 this
  | .cons (.block q body) (.cons _ _), _, hf, _, _, _, _, _ => by simp [Kids.okFn, Kids.isNil] at hf
  | .cons (.expr e ks) r, x, hf, hpre, he, g, hg, hst => by
    have hf' : (ks.okF = true ∧ ks.pure = true) ∧ r.okFn = true := by simpa [Kids.okFn] using hf
    simp only [Kids.fnBodies] at hg
    simp only [Kids.positions] at hpre
    have hk := visitKid_ok (.expr e ks) x (by simpa [Kid.okF] using hf'.1.1) (by simpa [Kid.pure] using hf'.1.2) hpre.left
    exact Kids.fnBodies_ok p r _ hf'.2 (hpre.right hk.frame) (hk.end_.trans he) g hg (by simpa [visitKids] using hst)
  | .cons (.fnScope p' ks) r, x, hf, hpre, he, g, hg, hst => by
    have hf' : ks.okFn = true ∧ r.okFn = true := by simpa [Kids.okFn] using hf
    simp only [Kids.fnBodies] at hg
    simp only [Kids.positions] at hpre
    have hk := visitKid_ok (.fnScope p' ks) x (by simpa [Kid.okF] using hf'.1) rfl hpre.left
    exact Kids.fnBodies_ok p r _ hf'.2 (hpre.right hk.frame) (hk.end_.trans he) g hg (by simpa [visitKids] using hst)
  | .cons (.stmt _) _, _, hf, _, _, _, _, _ => by simp [Kids.okFn] at hf

theorem fnScope_claims (p : Nat) (ks : Kids) (a : A) (hf : ks.okFn = true) (hpre : PreK (p :: ks.positions) a)
    (ih : ∀ x, PreK ks.positions x → KClaims ks (visitKids ks x).info) :
    KdClaims (.fnScope p ks) (visitKid (.fnScope p ks) a).info := by
  have hnd := List.nodup_cons.mp hpre.nodup
  have hprec : PreK ks.positions ({ sc := { end_ := childEnd .function a.sc.end_ }, info := a.info } : A) :=
    ⟨fun q hq => hpre.fresh q (List.mem_cons_of_mem _ hq), hnd.2⟩
  have hG := ih _ hprec
  have hag : ∀ q ∈ ks.positions, (visitKid (.fnScope p ks) a).info q =
      (visitKids ks { sc := { end_ := childEnd .function a.sc.end_ }, info := a.info }).info q := by
    intro q hq
    have hne : q ≠ p := fun e => hnd.1 (e ▸ hq)
    simp only [visitKid]; exact withChild_info _ _ _ _ _ hne
  have hks := hG.transport hag
  have own : Claims [] [] (ks.fnBodies p) (visitKid (.fnScope p ks) a).info := by
    refine ⟨fun _ h => absurd h (by simp), fun _ h => absurd h (by simp), ?_⟩
    intro g hg hst
    have hq := Kids.fnBodies_mem p ks g hg
    rw [metaStops_congr (hag _ hq)] at hst
    exact Kids.fnBodies_ok p ks _ hf hprec rfl g hg hst
  exact (own.append hks).mono (fun q hq => by simpa [Kid.stopViol] using hq) (fun c hc => by simpa [Kid.swCases] using hc)
    (fun g hg => by simpa [Kid.getters] using hg)

theorem kidsCons_claims (k : Kid) (r : Kids) (a : A) (hpre : PreK (k.positions ++ r.positions) a)
    (ihk : ∀ x, PreK k.positions x → KdClaims k (visitKid k x).info)
    (ihr : ∀ x, PreK r.positions x → KClaims r (visitKids r x).info) :
    KClaims (.cons k r) (visitKids (.cons k r) a).info := by
  simp only [visitKids]
  have hk := ihk a hpre.left
  have hr := ihr _ (hpre.right (fun q hq => Kid.info_frame k a q hq))
  have hk' : KdClaims k (visitKids r (visitKid k a)).info := by
    refine Claims.transport_on (f := fun i => k.stopViol i) hk (Kid.sv_local k) (Kid.sw_keys k []) (Kid.getters_mem k)
      (Kid.upos_sub k) (fun q hq => ?_)
    exact Kids.info_frame r _ q (fun h => hpre.disj q hq h)
  exact (hk'.append hr).mono (fun q hq => by simpa [Kids.stopViol] using hq) (fun c hc => by simpa [Kids.swCases] using hc)
    (fun g hg => by simpa [Kids.getters] using hg)

/-- the body block of a function or catch clause, as the last kid -/
theorem kidsBlock_claims (q : Nat) (body : Stmts) (a : A) (hpre : PreK (Kids.cons (.block q body) .nil).positions a)
    (ih : ∀ x, PreK body.positions x → LClaims body (visitStmts body x).info) :
    KClaims (.cons (.block q body) .nil) (visitKids (.cons (.block q body) .nil) a).info := by
  have hpos : (Kids.cons (.block q body) .nil).positions = q :: body.positions := by simp [Kids.positions, Kid.positions]
  rw [hpos] at hpre
  have hnd := List.nodup_cons.mp hpre.nodup
  have hb := ih a (hpre.sub (fun u hu => List.mem_cons_of_mem _ hu) hnd.2)
  simp only [visitKids, visitKid]
  have hb' : LClaims body (blockTail q (visitStmts body a)).info := by
    refine hb.transport (fun u hu => ?_)
    have hne : u ≠ q := fun e => hnd.1 (e ▸ hu)
    exact blockTail_info _ _ _ hne
  exact hb'.mono (fun u hu => by simpa [Kids.stopViol, Kid.stopViol] using hu)
    (fun c hc => by simpa [Kids.swCases, Kid.swCases] using hc) (fun g hg => by simpa [Kids.getters, Kid.getters] using hg)

end DL.CF
