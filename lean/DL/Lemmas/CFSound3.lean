import DL.Lemmas.CFKids

/-! Soundness invariant: blocks and `if`. -/
namespace DL.CF

theorem getD_cont_stops (e : Option End) : stopsEnd (some (e.getD .cont)) = stopsEnd e := by
  rcases e with _ | ⟨r, t, i⟩ | _ | _ <;> rfl

theorem block_ok (live : Bool) (ls : List Id) (p : Nat) (b : Stmts) (a : A) (hpre : Pre live (p :: b.positions) a)
    (ih : ∀ a0, Pre live b.positions a0 → PostL live b.upos b.positions b.compl b.reach b.inner a0 (visitStmts b a0)) :
    PostS live ls (.block p b) a (visitStmt (.block p b) a) := by
  have hnd := List.nodup_cons.mp hpre.nodup
  have hv : visitStmt (.block p b) a = blockTail p (visitStmts b (flagA a p .other)) := by simp [visitStmt, flagA]
  rw [hv]
  have h1 := ih (flagA a p .other) (hpre.flag p .other (fun q hq => List.mem_cons_of_mem _ hq) hnd.2)
  generalize visitStmts b (flagA a p .other) = a1 at h1
  unfold blockTail
  have hst : stopsEnd (markAsEnd p (a1.sc.end_.getD .cont) a1).sc.end_ = stopsEnd a1.sc.end_ := by
    rw [markAsEnd_stops, getD_cont_stops]; simp
  refine ⟨⟨?_, ?_, ?_, ?_, ?_, ?_, ?_, ?_, ?_, ?_, ?_⟩, ?_⟩
  · intro hs; rw [hst] at hs; simpa [Stmt.compl] using h1.p1 hs
  · intro hb; rw [markAsEnd_foundBreak]; exact h1.p2 (by simpa [Stmt.compl] using hb)
  · intro hc; rw [markAsEnd_foundContinue]; exact h1.p2c (by simpa [Stmt.compl] using hc)
  · intro hb; rw [markAsEnd_foundBreak]; exact h1.monoB hb
  · intro hc; rw [markAsEnd_foundContinue]; exact h1.monoC hc
  · intro hc; rw [markAsEnd_foundContinue]; exact h1.p2l (by simpa [Stmt.compl] using hc)
  · intro q hq hu
    rw [markAsEnd_ur] at hu
    simp only [Stmt.upos] at hq
    rcases List.mem_cons.mp hq with rfl | hqb
    · rw [ur_eq_of_info_eq (h1.frame q hnd.1)] at hu
      have := own_pos_dead hpre q .other _ rfl hu
      simp [this]
    · have hne : q ≠ p := fun e => hnd.1 (e ▸ Stmts.upos_sub b q hqb)
      have := h1.p3 q hqb hu
      simp only [Stmt.reach]
      revert this; cases live <;> simp [hne]
  · intro q hq hu
    rw [markAsEnd_ur] at hu
    simp only [Stmt.upos] at hq
    simp only [Stmt.inner]
    rcases List.mem_cons.mp hq with rfl | hqb
    · exact Stmts.inner_false b q hnd.1
    · exact h1.p3i q hqb hu
  · intro q hq
    simp only [Stmt.positions, List.mem_cons, not_or] at hq
    rw [markAsEnd_info_other _ _ _ _ hq.1, h1.frame q hq.2]
    exact flagA_other a p .other q hq.1
  · intro hh; rw [markAsEnd_mayThrow]; exact h1.monoT hh
  · intro hh; rw [markAsEnd_mayThrow]; exact h1.pT (by simpa [Stmt.compl] using hh)
  · intro _ hs
    simp only [Stmt.pos] at hs
    rcases markAsEnd_self_stops _ _ _ hs with h' | h'
    · simpa [Stmt.compl] using h1.p1 h'
    · rw [getD_cont_stops] at h'; simpa [Stmt.compl] using h1.p1 h'

/-- what `with_child_scope(BlockKind::If, ..)` leaves in the parent, from the invariant of the branch -/
theorem ifChild (live : Bool) (ls : List Id) (c : Stmt) (a1 c' a2 : A) (hpost : PostS live ls c (childA .ifK a1) c')
    (ha2 : a2 = { sc := mergeSc .ifK a1.sc c'.sc, info := c'.info }) :
    a2.info = c'.info ∧ a2.sc.end_ = a1.sc.end_ ∧
    ((live && (c.compl ls).b) = true → a2.sc.foundBreak = some none) ∧
    ((live && ((c.compl ls).c || (c.compl ls).hasCl)) = true → a2.sc.foundContinue = true) ∧
    (a1.sc.foundBreak = some none → a2.sc.foundBreak = some none) ∧
    (a1.sc.foundContinue = true → a2.sc.foundContinue = true) ∧
    (a1.sc.mayThrow = true → a2.sc.mayThrow = true) ∧
    ((live && (c.compl ls).t) = true → a2.sc.mayThrow = true) := by
  subst ha2
  refine ⟨rfl, rfl, ?_, ?_, ?_, ?_, fun h => by simp [mergeSc, h], fun h => by simp [mergeSc, hpost.pT h]⟩
  · intro hb; simp [mergeSc, mergeFb, hpost.p2 hb]
  · intro hc
    have : c'.sc.foundContinue = true := by
      cases h1 : (live && (c.compl ls).c) with
      | true => exact hpost.p2c h1
      | false =>
        apply hpost.p2l
        revert hc h1; cases live <;> cases (c.compl ls).c <;> simp
    simp [mergeSc, this]
  · intro hb
    by_cases h : (c'.sc.foundBreak == some none) = true
    · simp [mergeSc, mergeFb, h]
    · simp [mergeSc, mergeFb, h, hb]
  · intro hc; simp [mergeSc, hc]

theorem childA_pre (live : Bool) (kind : BlockKind) (ps : List Nat) (a1 : A) (hs : stopsEnd a1.sc.end_ = true → live = false)
    (hfresh : ∀ p ∈ ps, a1.info.endAt p = none) (hn : ps.Nodup) : Pre live ps (childA kind a1) :=
  ⟨fun h => hs (childEnd_stops kind _ h), hfresh, hn⟩

/-- the completions of an `if` without `else` whose test has plain completions `tc` -/
theorem if_none_fields (ls : List Id) (p : Nat) (test : Kids) (c : Stmt) (hpl : test.compl.plain = true) :
    let s := Stmt.compl ls (.ifS p test c none)
    s.n = test.compl.n ∧ s.b = (test.compl.n && (c.compl []).b) ∧ s.c = (test.compl.n && (c.compl []).c) ∧
    s.hasCl = (test.compl.n && (c.compl []).hasCl) ∧ s.t = (test.compl.t || (test.compl.n && (c.compl []).t)) := by
  simp [Stmt.compl, Compl.plain_b hpl, Compl.plain_c hpl, Compl.plain_hasCl hpl]

theorem if_none_ok (live : Bool) (ls : List Id) (p : Nat) (test : Kids) (c : Stmt) (a : A)
    (hpl : test.compl.plain = true)
    (hpre : Pre live (p :: (test.positions ++ c.positions)) a)
    (ihk : ∀ x, Pre live test.positions x → KidsL live test x (visitKids test x))
    (ih : ∀ a0, Pre (live && test.compl.n) c.positions a0 → PostS (live && test.compl.n) [] c a0 (visitStmt c a0)) :
    PostS live ls (.ifS p test c none) a (visitStmt (.ifS p test c none) a) := by
  have hk := ihk _ (Prefix.pre hpre)
  have hv : visitStmt (.ifS p test c none) a =
      (markAsEnd p .cont (withChild .ifK c.pos (fun x => sobTail c (visitStmt c x)) (visitKids test (flagA a p .other)))).setEnd
        (visitKids test (flagA a p .other)).sc.end_ := by simp [visitStmt, flagA]
  rw [hv]
  generalize visitKids test (flagA a p .other) = a1 at hk ⊢
  have hx := Prefix.of hpre hk
  have hpre1 : Pre (live && test.compl.n) c.positions (childA .ifK a1) :=
    childA_pre _ .ifK _ a1 hx.hs hx.hfresh hx.ndr
  have h1 := sob_ok _ [] c _ _ (ih _ hpre1)
  generalize ha2 : withChild .ifK c.pos (fun x => sobTail c (visitStmt c x)) a1 = a2
  rw [withChild_if] at ha2
  obtain ⟨hi2, he, hb, hc, hmb, hmc, hmt, hpt⟩ := ifChild _ [] c a1 _ a2 h1 ha2.symm
  generalize sobTail c (visitStmt c (childA .ifK a1)) = c' at h1 hi2
  obtain ⟨fn, fb, fc, fl, ft⟩ := if_none_fields ls p test c hpl
  have hcu : ∀ q, q ∈ c.upos → q ≠ p ∧ q ∉ test.positions := fun q hq =>
    ⟨fun e => hx.pr (e ▸ Stmt.upos_sub c q hq), fun h => hx.disj q h (Stmt.upos_sub c q hq)⟩
  have htu : ∀ q, q ∈ test.upos → q ≠ p ∧ q ∉ c.positions := fun q hq =>
    ⟨fun e => hx.pk (e ▸ Kids.upos_sub test q hq), fun h => hx.disj q (Kids.upos_sub test q hq) h⟩
  refine ⟨⟨?_, ?_, ?_, ?_, ?_, ?_, ?_, ?_, ?_, ?_, ?_⟩, ?_⟩
  · intro hst
    simp only [setEnd_end] at hst
    rw [fn]; exact hx.hs hst
  · intro hh
    simp only [setEnd_foundBreak, markAsEnd_foundBreak]
    rw [fb, ← Bool.and_assoc] at hh; exact hb hh
  · intro hh
    simp only [setEnd_foundContinue, markAsEnd_foundContinue]
    rw [fc, ← Bool.and_assoc] at hh
    exact hc (by rw [Bool.and_or_distrib_left, hh]; rfl)
  · intro hh
    simp only [setEnd_foundBreak, markAsEnd_foundBreak]
    exact hmb (hx.hb hh)
  · intro hh
    simp only [setEnd_foundContinue, markAsEnd_foundContinue]
    exact hmc (hx.hc hh)
  · intro hh
    simp only [setEnd_foundContinue, markAsEnd_foundContinue]
    rw [fl, ← Bool.and_assoc] at hh
    exact hc (by rw [Bool.and_or_distrib_left, hh]; simp)
  · intro q hq hu
    simp only [setEnd_info, markAsEnd_ur] at hu
    rw [hi2] at hu
    simp only [Stmt.upos, List.mem_cons, List.mem_append] at hq
    simp only [Stmt.reach, evalCompl_eq]
    rcases hq with rfl | hqt | hqc
    · have := hx.dead hpre _ (ur_eq_of_info_eq (h1.frame q hx.pr)) hu
      simp [this]
    · rw [ur_eq_of_info_eq (h1.frame q (htu q hqt).2)] at hu
      have := hk.p3 q hqt hu
      revert this; cases live <;> simp [(htu q hqt).1, c.reach_false q (htu q hqt).2]
    · have := h1.p3 q hqc hu
      revert this; cases live <;> simp [(hcu q hqc).1, Kids.flowReach_false test q (hcu q hqc).2]
  · intro q hq hu
    simp only [setEnd_info, markAsEnd_ur] at hu
    rw [hi2] at hu
    simp only [Stmt.upos, List.mem_cons, List.mem_append] at hq
    simp only [Stmt.inner]
    rcases hq with rfl | hqt | hqc
    · simp [Kids.inner_false test q hx.pk, c.inner_false q hx.pr]
    · rw [ur_eq_of_info_eq (h1.frame q (htu q hqt).2)] at hu
      simp [hk.p3i q hqt hu, c.inner_false q (htu q hqt).2]
    · simp [h1.p3i q hqc hu, Kids.inner_false test q (hcu q hqc).2]
  · intro q hq
    simp only [Stmt.positions, List.mem_cons, List.mem_append, not_or] at hq
    simp only [setEnd_info]
    rw [markAsEnd_info_other _ _ _ _ hq.1, hi2, h1.frame q hq.2.2]
    exact hx.hi q hq.1 hq.2.1
  · intro hh
    simp only [setEnd_mayThrow, markAsEnd_mayThrow]
    exact hmt (hx.hmt hh)
  · intro hh
    simp only [setEnd_mayThrow, markAsEnd_mayThrow]
    rw [ft] at hh
    cases hkt : (live && test.compl.t) with
    | true => exact hmt (hx.pT hkt)
    | false =>
      apply hpt
      revert hh hkt; cases live <;> cases test.compl.t <;> cases test.compl.n <;> simp
  · intro _ hst
    simp only [Stmt.pos, setEnd_info] at hst
    rw [fn]
    rcases markAsEnd_self_stops _ _ _ hst with h' | h'
    · rw [he] at h'; exact hx.hs h'
    · simp at h'

end DL.CF

namespace DL.CF

theorem stmtEnd_stops {de : Bool} {info : Info} {p : Nat} (h : stopsEnd (stmtEnd de info p) = true) :
    stopsEnd (info.endAt p) = true := by
  cases de <;> simp_all [stmtEnd]

theorem stmtEnd_forced {de : Bool} {info : Info} {p : Nat} (h : isForcedEnd (stmtEnd de info p) = true) :
    isForcedEnd (info.endAt p) = true ∧ stmtEnd de info p = info.endAt p := by
  cases de <;> simp_all [stmtEnd]

theorem ifJoin_eq (p : Nat) (cr ar : Option End) (a : A) :
    ∃ e, ifJoin p cr ar a = markAsEnd p e a ∧
      (stopsEnd (some e) = true → stopsEnd cr = true ∧ stopsEnd ar = true) := by
  rcases cr with _ | ⟨r1, t1, i1⟩ | _ | _ <;> rcases ar with _ | ⟨r2, t2, i2⟩ | _ | _ <;>
    simp only [ifJoin] <;> exact ⟨_, rfl, by simp⟩

end DL.CF
