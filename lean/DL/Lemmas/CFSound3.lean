import DL.Lemmas.CFSound2

/-! Soundness invariant: blocks and `if`. -/
namespace DL.CF

theorem getD_cont_stops (e : Option End) : stopsEnd (some (e.getD .cont)) = stopsEnd e := by
  rcases e with _ | ⟨r, t, i⟩ | _ | _ <;> rfl

theorem block_ok (live : Bool) (p : Nat) (b : Stmts) (a : A) (hpre : Pre live (p :: b.positions) a)
    (ih : ∀ a0, Pre live b.positions a0 → PostL live b.positions b.compl b.reach a0 (visitStmts b a0))
    (hrf : ∀ q, q ∉ b.positions → b.reach q = false) :
    PostS live (.block p b) a (visitStmt (.block p b) a) := by
  have hnd := List.nodup_cons.mp hpre.nodup
  have hv : visitStmt (.block p b) a = blockTail p (visitStmts b (flagA a p .other)) := by simp [visitStmt, flagA]
  rw [hv]
  have h1 := ih (flagA a p .other) (hpre.flag p .other (fun q hq => List.mem_cons_of_mem _ hq) hnd.2)
  generalize visitStmts b (flagA a p .other) = a1 at h1
  unfold blockTail
  have hst : stopsEnd (markAsEnd p (a1.sc.end_.getD .cont) a1).sc.end_ = stopsEnd a1.sc.end_ := by
    rw [markAsEnd_stops, getD_cont_stops]; simp
  refine ⟨⟨?_, ?_, ?_, ?_, ?_, ?_, ?_, ?_⟩, ?_⟩
  · intro hs; rw [hst] at hs; simpa [Stmt.compl] using h1.p1 hs
  · intro hb; rw [markAsEnd_foundBreak]; exact h1.p2 (by simpa [Stmt.compl] using hb)
  · intro hc; rw [markAsEnd_foundContinue]; exact h1.p2c (by simpa [Stmt.compl] using hc)
  · intro hb; rw [markAsEnd_foundBreak]; exact h1.monoB hb
  · intro hc; rw [markAsEnd_foundContinue]; exact h1.monoC hc
  · unfold FB; rw [markAsEnd_foundBreak]; exact h1.fb
  · intro q hq hu
    rw [markAsEnd_ur] at hu
    simp only [Stmt.positions] at hq
    rcases List.mem_cons.mp hq with rfl | hqb
    · rw [ur_eq_of_info_eq (h1.frame q hnd.1)] at hu
      have := own_pos_dead hpre q .other _ rfl hu
      simp [this]
    · have hne : q ≠ p := fun e => hnd.1 (e ▸ hqb)
      have := h1.p3 q hqb hu
      simp only [Stmt.reach]
      revert this; cases live <;> simp [hne]
  · intro q hq
    simp only [Stmt.positions, List.mem_cons, not_or] at hq
    rw [markAsEnd_info_other _ _ _ _ hq.1, h1.frame q hq.2]
    exact flagA_other a p .other q hq.1
  · intro hs
    simp only [Stmt.pos] at hs
    rcases markAsEnd_self_stops _ _ _ hs with h' | h'
    · simpa [Stmt.compl] using h1.p1 h'
    · rw [getD_cont_stops] at h'; simpa [Stmt.compl] using h1.p1 h'

/-- what `with_child_scope(BlockKind::If, ..)` leaves in the parent, from the invariant of the branch -/
theorem ifChild (live : Bool) (c : Stmt) (a1 c' a2 : A) (hpost : PostS live c (childA .ifK a1) c') (hfb : FB a1)
    (ha2 : a2 = { sc := mergeSc .ifK a1.sc c'.sc, info := c'.info }) :
    a2.info = c'.info ∧ a2.sc.end_ = a1.sc.end_ ∧
    ((live && (c.compl []).b) = true → a2.sc.foundBreak = some none) ∧
    ((live && (c.compl []).c) = true → a2.sc.foundContinue = true) ∧
    (a1.sc.foundBreak = some none → a2.sc.foundBreak = some none) ∧
    (a1.sc.foundContinue = true → a2.sc.foundContinue = true) ∧ FB a2 := by
  subst ha2
  refine ⟨rfl, rfl, ?_, ?_, ?_, ?_, ?_⟩
  · intro hb; simp [mergeSc, mergeFb, hpost.p2 hb]
  · intro hc; simp [mergeSc, hpost.p2c hc]
  · intro hb
    by_cases h : (c'.sc.foundBreak == some none) = true
    · simp [mergeSc, mergeFb, h]
    · simp [mergeSc, mergeFb, h, hb]
  · intro hc; simp [mergeSc, hc]
  · unfold FB
    simp only [mergeSc, mergeFb]
    by_cases h : (c'.sc.foundBreak == some none) = true
    · simp [h]
    · simp only [h, Bool.false_eq_true, if_false]
      rcases hfb with h1 | h1
      · simp only [h1, Option.isNone_none, if_true]; exact hpost.fb
      · simp [h1]

theorem childA_pre (live : Bool) (kind : BlockKind) (ps : List Nat) (a1 : A) (hs : stopsEnd a1.sc.end_ = true → live = false)
    (hfresh : ∀ p ∈ ps, a1.info.endAt p = none) (hn : ps.Nodup) : Pre live ps (childA kind a1) :=
  ⟨fun h => hs (childEnd_stops kind _ h), hfresh, hn, Or.inl rfl⟩

theorem if_none_ok (live : Bool) (p : Nat) (test : Kids) (c : Stmt) (a : A) (ht : test.flat = true)
    (hpre : Pre live (p :: c.positions) a)
    (ih : ∀ a0, Pre live c.positions a0 → PostS live c a0 (visitStmt c a0)) :
    PostS live (.ifS p test c none) a (visitStmt (.ifS p test c none) a) := by
  have hnd := List.nodup_cons.mp hpre.nodup
  have hs1 := visitKids_flat test (flagA a p .other) ht
  have hv : visitStmt (.ifS p test c none) a =
      (markAsEnd p .cont (withChild .ifK c.pos (fun x => sobTail c (visitStmt c x)) (visitKids test (flagA a p .other)))).setEnd
        (visitKids test (flagA a p .other)).sc.end_ := by simp [visitStmt, flagA]
  rw [hv]
  generalize visitKids test (flagA a p .other) = a1 at hs1 ⊢
  have he1 : a1.sc.end_ = a.sc.end_ := hs1.end_
  have hb1 : a1.sc.foundBreak = a.sc.foundBreak := hs1.fb
  have hc1 : a1.sc.foundContinue = a.sc.foundContinue := hs1.fc
  have hpre1 : Pre live c.positions (childA .ifK a1) := by
    refine childA_pre live .ifK _ a1 (fun h => hpre.hs (by rw [← he1]; exact h)) ?_ hnd.2
    intro q hq; rw [endAt_eq_of_info_eq (congrFun hs1.info q), flagA_endAt]
    exact hpre.fresh q (List.mem_cons_of_mem _ hq)
  have h1 := sob_ok live c _ _ (ih _ hpre1)
  have hfb1 : FB a1 := by unfold FB; rw [hb1]; exact hpre.fb
  generalize ha2 : withChild .ifK c.pos (fun x => sobTail c (visitStmt c x)) a1 = a2
  rw [withChild_if] at ha2
  obtain ⟨hi2, he, hb, hc, hmb, hmc, hfb⟩ := ifChild live c a1 _ a2 h1 hfb1 ha2.symm
  generalize sobTail c (visitStmt c (childA .ifK a1)) = c' at h1 hi2
  have hcp : c.pos ≠ p := fun e => hnd.1 (e ▸ c.pos_mem)
  refine ⟨⟨?_, ?_, ?_, ?_, ?_, ?_, ?_, ?_⟩, ?_⟩
  · intro hst
    simp only [setEnd_end] at hst
    rw [he1] at hst
    simp [hpre.hs hst]
  · intro hh
    simp only [setEnd_foundBreak, markAsEnd_foundBreak]
    exact hb (by simpa [Stmt.compl] using hh)
  · intro hh
    simp only [setEnd_foundContinue, markAsEnd_foundContinue]
    exact hc (by simpa [Stmt.compl] using hh)
  · intro hh
    simp only [setEnd_foundBreak, markAsEnd_foundBreak]
    exact hmb (by rw [hb1]; exact hh)
  · intro hh
    simp only [setEnd_foundContinue, markAsEnd_foundContinue]
    exact hmc (by rw [hc1]; exact hh)
  · unfold FB; simp only [setEnd_foundBreak, markAsEnd_foundBreak]; exact hfb
  · intro q hq hu
    simp only [setEnd_info, markAsEnd_ur] at hu
    rw [hi2] at hu
    simp only [Stmt.positions] at hq
    rcases List.mem_cons.mp hq with rfl | hqc
    · rw [ur_eq_of_info_eq (h1.frame q hnd.1)] at hu
      have := own_pos_dead hpre q .other _ (by simp only [childA]; rw [hs1.info]) hu
      simp [this]
    · have hne : q ≠ p := fun e => hnd.1 (e ▸ hqc)
      have := h1.p3 q hqc hu
      simp only [Stmt.reach, evalCompl_n, Bool.true_and]
      revert this; cases live <;> simp [hne]
  · intro q hq
    simp only [Stmt.positions, List.mem_cons, not_or] at hq
    simp only [setEnd_info]
    rw [markAsEnd_info_other _ _ _ _ hq.1, hi2]
    rw [h1.frame q hq.2]
    simp only [childA]
    rw [hs1.info]; exact flagA_other a p .other q hq.1
  · intro hst
    simp only [Stmt.pos, setEnd_info] at hst
    rcases markAsEnd_self_stops _ _ _ hst with h' | h'
    · rw [he, he1] at h'; simp [hpre.hs h']
    · simp at h'

end DL.CF

namespace DL.CF

theorem stmtEnd_stops {de : Bool} {info : Info} {p : Nat} (h : stopsEnd (stmtEnd de info p) = true) :
    stopsEnd (info.endAt p) = true := by
  cases de <;> simp_all [stmtEnd]

theorem stmtEnd_forced {de : Bool} {info : Info} {p : Nat} (h : isForcedEnd (stmtEnd de info p) = true) :
    isForcedEnd (info.endAt p) = true ∧ stmtEnd de info p = info.endAt p := by
  cases de <;> simp_all [stmtEnd]

theorem ifJoin_eq (p : Nat) (cr ar : Option End) (a : A) :
    ∃ e, ifJoin p cr ar a = markAsEnd p e a ∧
      (stopsEnd (some e) = true → stopsEnd cr = true ∧ stopsEnd ar = true) := by
  rcases cr with _ | ⟨r1, t1, i1⟩ | _ | _ <;> rcases ar with _ | ⟨r2, t2, i2⟩ | _ | _ <;>
    simp only [ifJoin] <;> exact ⟨_, rfl, by simp⟩

theorem if_some_ok (live : Bool) (p : Nat) (test : Kids) (c al : Stmt) (a : A) (ht : test.flat = true)
    (hfc : c.inF = true) (hfa : al.inF = true)
    (hpre : Pre live (p :: (c.positions ++ al.positions)) a)
    (ihc : ∀ a0, Pre live c.positions a0 → PostS live c a0 (visitStmt c a0))
    (iha : ∀ a0, Pre live al.positions a0 → PostS live al a0 (visitStmt al a0)) :
    PostS live (.ifS p test c (some al)) a (visitStmt (.ifS p test c (some al)) a) := by
  have hnd := List.nodup_cons.mp hpre.nodup
  have hnd2 := List.nodup_append.mp hnd.2
  have hdisj : ∀ q, q ∈ c.positions → q ∈ al.positions → False := fun q h1 h2 => hnd2.2.2 q h1 q h2 rfl
  have hpc : p ∉ c.positions := fun h => hnd.1 (List.mem_append.mpr (Or.inl h))
  have hpa : p ∉ al.positions := fun h => hnd.1 (List.mem_append.mpr (Or.inr h))
  have hs1 := visitKids_flat test (flagA a p .other) ht
  have hv : visitStmt (.ifS p test c (some al)) a =
      (let a1 := visitKids test (flagA a p .other)
       let a2 := withChild .ifK c.pos (fun x => sobTail c (visitStmt c x)) a1
       let a3 := withChild .ifK al.pos (fun x => sobTail al (visitStmt al x)) a2
       ifJoin p (stmtEnd c.isDeclOrExpr a2.info c.pos) (stmtEnd al.isDeclOrExpr a3.info al.pos) a3) := by simp [visitStmt, flagA]
  rw [hv]
  simp only []
  generalize visitKids test (flagA a p .other) = a1 at hs1 ⊢
  have he1 : a1.sc.end_ = a.sc.end_ := hs1.end_
  have hb1 : a1.sc.foundBreak = a.sc.foundBreak := hs1.fb
  have hc1 : a1.sc.foundContinue = a.sc.foundContinue := hs1.fc
  have hi1 : ∀ q, q ≠ p → a1.info q = a.info q := fun q hq => by rw [hs1.info]; exact flagA_other a p .other q hq
  have hfresh1 : ∀ q ∈ c.positions ++ al.positions, a1.info.endAt q = none := by
    intro q hq; rw [endAt_eq_of_info_eq (congrFun hs1.info q), flagA_endAt]
    exact hpre.fresh q (List.mem_cons_of_mem _ hq)
  -- first branch
  have hprec : Pre live c.positions (childA .ifK a1) :=
    childA_pre live .ifK _ a1 (fun h => hpre.hs (by rw [← he1]; exact h))
      (fun q hq => hfresh1 q (List.mem_append.mpr (Or.inl hq))) hnd2.1
  have h1 := sob_ok live c _ _ (ihc _ hprec)
  have hfb1 : FB a1 := by unfold FB; rw [hb1]; exact hpre.fb
  generalize ha2 : withChild .ifK c.pos (fun x => sobTail c (visitStmt c x)) a1 = a2
  rw [withChild_if] at ha2
  obtain ⟨hi2, he2, hb2, hc2, hmb2, hmc2, hfb2⟩ := ifChild live c a1 _ a2 h1 hfb1 ha2.symm
  generalize sobTail c (visitStmt c (childA .ifK a1)) = c' at h1 hi2
  -- second branch
  have hprea : Pre live al.positions (childA .ifK a2) := by
    refine childA_pre live .ifK _ a2 (fun h => hpre.hs (by rw [← he1, ← he2]; exact h)) ?_ hnd2.2.1
    intro q hq
    rw [hi2, endAt_eq_of_info_eq (h1.frame q (fun hqc => hdisj q hqc hq))]
    exact hfresh1 q (List.mem_append.mpr (Or.inr hq))
  have h2 := sob_ok live al _ _ (iha _ hprea)
  generalize ha3 : withChild .ifK al.pos (fun x => sobTail al (visitStmt al x)) a2 = a3
  rw [withChild_if] at ha3
  obtain ⟨hi3, he3, hb3, hc3, hmb3, hmc3, hfb3⟩ := ifChild live al a2 _ a3 h2 hfb2 ha3.symm
  generalize sobTail al (visitStmt al (childA .ifK a2)) = al' at h2 hi3
  have hcr : stopsEnd (stmtEnd c.isDeclOrExpr a2.info c.pos) = true → (live && (c.compl []).n) = false := by
    intro h; have h := stmtEnd_stops h; rw [hi2] at h; exact h1.p4 h
  have har : stopsEnd (stmtEnd al.isDeclOrExpr a3.info al.pos) = true → (live && (al.compl []).n) = false := by
    intro h; have h := stmtEnd_stops h; rw [hi3] at h; exact h2.p4 h
  obtain ⟨e, hje, hjs⟩ := ifJoin_eq p (stmtEnd c.isDeclOrExpr a2.info c.pos) (stmtEnd al.isDeclOrExpr a3.info al.pos) a3
  rw [hje]
  have hn : (Stmt.compl [] (.ifS p test c (some al))).n = ((c.compl []).n || (al.compl []).n) := by simp [Stmt.compl]
  have hstop : stopsEnd a3.sc.end_ = true ∨ stopsEnd (some e) = true →
      (live && ((c.compl []).n || (al.compl []).n)) = false := by
    rintro (h | h)
    · rw [he3, he2, he1] at h; simp [hpre.hs h]
    · have := hjs h
      have x := hcr this.1; have y := har this.2
      revert x y; cases live <;> cases (c.compl []).n <;> cases (al.compl []).n <;> simp
  refine ⟨⟨?_, ?_, ?_, ?_, ?_, ?_, ?_, ?_⟩, ?_⟩
  · intro hst
    rw [markAsEnd_stops] at hst
    rw [hn]; apply hstop
    revert hst; cases stopsEnd a3.sc.end_ <;> simp
  · intro hh
    rw [markAsEnd_foundBreak]
    have : (live && (c.compl []).b) = true ∨ (live && (al.compl []).b) = true := by
      simp only [Stmt.compl, seq_b, evalCompl_b, evalCompl_n, union_b, Bool.false_or, Bool.true_and] at hh
      revert hh; cases live <;> cases (c.compl []).b <;> simp
    rcases this with h | h
    · exact hmb3 (hb2 h)
    · exact hb3 h
  · intro hh
    rw [markAsEnd_foundContinue]
    have : (live && (c.compl []).c) = true ∨ (live && (al.compl []).c) = true := by
      simp only [Stmt.compl, seq_c, evalCompl_c, evalCompl_n, union_c, Bool.false_or, Bool.true_and] at hh
      revert hh; cases live <;> cases (c.compl []).c <;> simp
    rcases this with h | h
    · exact hmc3 (hc2 h)
    · exact hc3 h
  · intro hh; rw [markAsEnd_foundBreak]; exact hmb3 (hmb2 (by rw [hb1]; exact hh))
  · intro hh; rw [markAsEnd_foundContinue]; exact hmc3 (hmc2 (by rw [hc1]; exact hh))
  · unfold FB; rw [markAsEnd_foundBreak]; exact hfb3
  · intro q hq hu
    rw [markAsEnd_ur, hi3] at hu
    simp only [Stmt.positions] at hq
    rcases List.mem_cons.mp hq with rfl | hq'
    · rw [ur_eq_of_info_eq (h2.frame q hpa)] at hu
      simp only [childA] at hu
      rw [hi2, ur_eq_of_info_eq (h1.frame q hpc)] at hu
      have := own_pos_dead hpre q .other _ (by simp only [childA]; rw [hs1.info]) hu
      simp [this]
    · have hne : q ≠ p := fun e => hnd.1 (e ▸ hq')
      simp only [Stmt.reach, evalCompl_n, Bool.true_and]
      rcases List.mem_append.mp hq' with hqc | hqa
      · have hna : q ∉ al.positions := fun h => hdisj q hqc h
        rw [ur_eq_of_info_eq (h2.frame q hna)] at hu
        simp only [childA] at hu
        rw [hi2] at hu
        have := h1.p3 q hqc hu
        rw [al.reach_false q hfa hna]
        revert this; cases live <;> simp [hne]
      · have hnc : q ∉ c.positions := fun h => hdisj q h hqa
        have := h2.p3 q hqa hu
        rw [c.reach_false q hfc hnc]
        revert this; cases live <;> simp [hne]
  · intro q hq
    simp only [Stmt.positions, List.mem_cons, List.mem_append, not_or] at hq
    rw [markAsEnd_info_other _ _ _ _ hq.1, hi3, h2.frame q hq.2.2]
    simp only [childA]
    rw [hi2, h1.frame q hq.2.1]
    simp only [childA]
    exact hi1 q hq.1
  · intro hst
    simp only [Stmt.pos] at hst
    rw [hn]; apply hstop
    exact markAsEnd_self_stops _ _ _ hst

end DL.CF
