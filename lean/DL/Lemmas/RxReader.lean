import DL.Lemmas.RxSafe

/-! # The `Reader` never panics under the reader invariant; only `index` and the look-ahead buffer change -/
namespace DL.Rx

/-- `s` differs from `s0` at most in `reader.index` and `reader.cps` -/
def Frame (s0 s : St) : Prop :=
  s = { s0 with reader := { s0.reader with index := s.reader.index, cps := s.reader.cps } }

theorem Frame.refl (s : St) : Frame s s := rfl

theorem Frame.inv {s0 s : St} (h : Frame s0 s) (h0 : Inv s0) : Inv s := by
  rw [h]; exact h0

theorem Frame.int {s0 s : St} (h : Frame s0 s) : s.lastIntValue = s0.lastIntValue := by
  rw [h]

theorem Frame.reader {s0 s : St} (h : Frame s0 s) (i : Nat) (c : List Nat) :
    Frame s0 { s with reader := { s.reader with index := i, cps := c } } := by
  unfold Frame at *
  rw [h]

/-- the invariant used for the reader functions: `Inv`, and nothing but `index`/`cps` differs from `s0` -/
def FInv (s0 : St) (s : St) : Prop := Inv s ∧ Frame s0 s

theorem readerAt_ok (i : Nat) (s : St) (h : Inv s) : ∃ o, readerAt i s = .ok o s := by
  unfold Inv Reader.units at h
  show ∃ o, (if i ≥ s.reader.end_ then (pure none : M (Option Nat)) else _) s = _
  by_cases h1 : i ≥ s.reader.end_
  · rw [if_pos h1]; exact ⟨none, rfl⟩
  · rw [if_neg h1]
    by_cases hu : s.reader.unicode = true
    · rw [if_pos hu] at h; rw [if_pos hu]
      have hlt : i < s.reader.src.length := by omega
      rw [List.getElem?_eq_getElem hlt]; exact ⟨_, rfl⟩
    · rw [if_neg hu] at h; rw [if_neg hu]
      have hlt : i < (encodeUtf16 s.reader.src).length := by omega
      rw [List.getElem?_eq_getElem hlt]; exact ⟨_, rfl⟩

theorem Keeps.readerAt {I : St → Prop} (hI : ∀ s, I s → Inv s) (i : Nat) : Keeps I (readerAt i) := by
  intro s hs
  obtain ⟨o, ho⟩ := readerAt_ok i s (hI s hs)
  rw [ho]; exact hs

theorem FInv.pushBack (s0 : St) (c : Nat) : Keeps (FInv s0) (pushBack c) :=
  Keeps.modSt fun _ h => ⟨h.1, h.2.reader _ _⟩

theorem FInv.rewindLoop (s0 : St) (index : Nat) : ∀ k i, Keeps (FInv s0) (rewindLoop index k i)
  | 0, _ => Keeps.pure
  | k + 1, i => by
    unfold DL.Rx.rewindLoop
    refine Keeps.bind (Keeps.readerAt (fun _ h => h.1) _) fun o => ?_
    cases o with
    | none => exact Keeps.pure
    | some c => exact Keeps.bind (FInv.pushBack s0 c) fun _ => FInv.rewindLoop s0 index k (i + 1)

theorem FInv.rewind (s0 : St) (index : Nat) : Keeps (FInv s0) (rewind index) := by
  unfold DL.Rx.rewind
  exact Keeps.bind (Keeps.modSt fun _ h => ⟨h.1, h.2.reader _ _⟩) fun _ => FInv.rewindLoop s0 index 4 0

theorem FInv.advance (s0 : St) : Keeps (FInv s0) advance := by
  unfold DL.Rx.advance
  refine Keeps.bind Keeps.getSt fun s => ?_
  cases s.reader.cps with
  | nil => exact Keeps.pure
  | cons c rest =>
    refine Keeps.bind (Keeps.modSt fun _ h => ⟨h.1, h.2.reader _ _⟩) fun _ => ?_
    refine Keeps.bind Keeps.getSt fun s => ?_
    refine Keeps.bind (Keeps.readerAt (fun _ h => h.1) _) fun o => ?_
    cases o with
    | none => exact Keeps.pure
    | some c => exact FInv.pushBack s0 c

theorem Keeps.ofFInv {α : Type} {m : M α} (h : ∀ s0, Keeps (FInv s0) m) : OK m := by
  intro s hs
  have h1 := h s s ⟨hs, Frame.refl s⟩
  cases h2 : m s with
  | ok a s' => rw [h2] at h1; exact h1.1
  | err _ _ => trivial
  | panic _ _ => rw [h2] at h1; exact h1
  | outOfFuel _ => trivial

/-- `advance` keeps `lastIntValue` -/
theorem advance_int (v : Int) :
    Safe (fun s => Inv s ∧ s.lastIntValue = v) advance (fun _ s => Inv s ∧ s.lastIntValue = v) := by
  intro s hs
  have h1 := FInv.advance s s ⟨hs.1, Frame.refl s⟩
  cases h2 : advance s with
  | ok a s' => rw [h2] at h1; exact ⟨h1.1, h1.2.int.trans hs.2⟩
  | err _ _ => trivial
  | panic _ _ => rw [h2] at h1; exact h1
  | outOfFuel _ => trivial

theorem OK.readerAt (i : Nat) : OK (readerAt i) := Keeps.readerAt (fun _ h => h) i
theorem OK.rewind (i : Nat) : OK (rewind i) := Keeps.ofFInv fun s0 => FInv.rewind s0 i
theorem OK.advance : OK advance := Keeps.ofFInv FInv.advance

macro_rules | `(tactic| rx_known) => `(tactic| exact OK.rewind _)
macro_rules | `(tactic| rx_known) => `(tactic| exact OK.advance)

theorem OK.codePointWithOffset (k : Nat) : OK (codePointWithOffset k) := by
  unfold DL.Rx.codePointWithOffset; rx_auto
theorem OK.index : OK index := by
  unfold DL.Rx.index; rx_auto
macro_rules | `(tactic| rx_known) => `(tactic| exact OK.codePointWithOffset _)
macro_rules | `(tactic| rx_known) => `(tactic| exact OK.index)

theorem OK.eat (c : Char) : OK (eat c) := by
  unfold DL.Rx.eat; rx_auto
theorem OK.eat2 (c1 c2 : Char) : OK (eat2 c1 c2) := by
  unfold DL.Rx.eat2; rx_auto
theorem OK.eat3 (c1 c2 c3 : Char) : OK (eat3 c1 c2 c3) := by
  unfold DL.Rx.eat3; rx_auto
macro_rules | `(tactic| rx_known) => `(tactic| exact OK.eat _)
macro_rules | `(tactic| rx_known) => `(tactic| exact OK.eat2 _ _)
macro_rules | `(tactic| rx_known) => `(tactic| exact OK.eat3 _ _ _)

/-- `reset` establishes the invariant from ANY state, provided `end ≤ number of units of the new source` -/
theorem reset_establishes (source : List Nat) (start end_ : Nat) (uFlag : Bool)
    (h : end_ ≤ (if uFlag then source else encodeUtf16 source).length) :
    Safe (fun _ => True) (reset source start end_ uFlag) (fun _ => Inv) := by
  unfold DL.Rx.reset
  refine Safe.bind (R := fun _ => Inv) (Safe.modSt fun s _ => ?_) fun _ => OK.rewind start
  show end_ ≤ (if uFlag = true then source else encodeUtf16 source).length
  exact h

end DL.Rx
