import DL.Props.C13Imp
/-!
# The faithful fix step of the import-adding rules: definitions and helper lemmas

`applyFix` of the model leaves out the extra `.imp false` item that the fix puts on the line of the last import in case
`Where.sameLine`.  Here: the position of that import (`recentPos`), the faithful step (`fixReal`), the first token's line
afterwards (`firstAfter`), and the lemmas about `kept` and `WF` under the three file operations.
-/
namespace DL.Imp

/-! ## definitions -/

/-- (line, item index) of the last top-level import seen -/
abbrev RecentPos := Option (Nat × Nat)

/-- thread (line, itemIdx) of the most recent import through the items of line `line`, starting at item index `j`:
one entry per `ref` (the state *before* that reference), like `wheresItems` -/
def recentPosItems (line : Nat) : RecentPos → Nat → List Item → List RecentPos × RecentPos
  | r, _, [] => ([], r)
  | r, j, .ref _ :: is => (r :: (recentPosItems line r (j + 1) is).1, (recentPosItems line r (j + 1) is).2)
  | _, j, .imp _ :: is => recentPosItems line (some (line, j)) (j + 1) is

def recentPosFrom : Nat → RecentPos → File → List RecentPos
  | _, _, [] => []
  | i, r, l :: ls =>
    (recentPosItems i r 0 l.items).1 ++ recentPosFrom (i + 1) (recentPosItems i r 0 l.items).2 ls

/-- for every raw diagnostic, in the order of `raw`: where the most recent import before it stands -/
def recentPosAll (f : File) : List RecentPos := recentPosFrom 0 none f

/-- line and item index of the most recent top-level import before the `i`-th raw diagnostic -/
def recentPos (f : File) (i : Nat) : Option (Nat × Nat) :=
  match (recentPosAll f)[i]? with
  | some r => r
  | none => none

/-- insert `.imp false` right after item `j` -/
def addImpAfter (j : Nat) (is : List Item) : List Item := is.take (j + 1) ++ Item.imp false :: is.drop (j + 1)

def Line.addImp (j : Nat) (ln : Line) : Line := { ln with items := addImpAfter j ln.items }

/-- insert `.imp false` right after item `j` of line `l` -/
def insertImpAfter (f : File) (l j : Nat) : File := f.modify l (Line.addImp j)

/-- the file after the fix the rule really offers for the `i`-th raw diagnostic -/
def fixReal (f : File) (first : Nat) (i : Nat) : File :=
  match (raw f)[i]?, (wheres f first)[i]? with
  | some d, some (.newLineAt k) => insertLine (dropName f d.2) k
  | some d, some .sameLine =>
    match recentPos f i with
    | some (l, j) => insertImpAfter (dropName f d.2) l j
    | none => dropName f d.2
  | _, _ => f

/-- the first token's line afterwards: a new line at or above it becomes the first token's line -/
def firstAfter (f : File) (first : Nat) (i : Nat) : Nat :=
  match (wheres f first)[i]? with
  | some (.newLineAt k) => if k ≤ first then k else first
  | _ => first

/-! ## `List.modify` -/

theorem mem_modify {α : Type} {g : α → α} {x : α} :
    ∀ {f : List α} {i : Nat}, x ∈ f.modify i g → ∃ a ∈ f, x = a ∨ x = g a
  | [], _, h => by simp at h
  | a :: as, 0, h => by
    rw [List.modify_zero_cons, List.mem_cons] at h
    rcases h with h | h
    · exact ⟨a, List.mem_cons_self, Or.inr h⟩
    · exact ⟨x, List.mem_cons_of_mem _ h, Or.inl rfl⟩
  | a :: as, i + 1, h => by
    rw [List.modify_succ_cons, List.mem_cons] at h
    rcases h with h | h
    · exact ⟨a, List.mem_cons_self, Or.inl h⟩
    · obtain ⟨b, hb, hx⟩ := mem_modify h
      exact ⟨b, List.mem_cons_of_mem _ hb, hx⟩

theorem rawFrom_modify (g : Line → Line) (hg : ∀ ln, (g ln).refs = ln.refs) :
    ∀ (i : Nat) (f : File) (l : Nat), rawFrom i (f.modify l g) = rawFrom i f
  | _, [], _ => by simp
  | i, a :: as, 0 => by rw [List.modify_zero_cons, rawFrom_cons, rawFrom_cons, hg]
  | i, a :: as, l + 1 => by
    rw [List.modify_succ_cons, rawFrom_cons, rawFrom_cons, rawFrom_modify g hg]

theorem getElem?_modify' (g : Line → Line) (f : File) (l j : Nat) :
    (f.modify l g)[j]? = (f[j]?).map (fun a => if l = j then g a else a) := by
  rw [List.getElem?_modify]; rfl

theorem dirAt_modify (g : Line → Line) (hg : ∀ ln, (g ln).dir = ln.dir) (f : File) (l j : Nat) :
    dirAt (f.modify l g) j = dirAt f j := by
  unfold dirAt
  rw [getElem?_modify']
  cases f[j]? with
  | none => rfl
  | some a =>
    show (if l = j then g a else a).dir = a.dir
    split
    · exact hg a
    · rfl

/-! ## `addImpAfter` changes neither the references nor the imports that end their line -/

theorem refs_addImpAfter (j : Nat) (is : List Item) :
    (addImpAfter j is).filterMap Item.refName? = is.filterMap Item.refName? := by
  unfold addImpAfter
  rw [List.filterMap_append, List.filterMap_cons]
  simp only [Item.refName?]
  rw [← List.filterMap_append, List.take_append_drop]

theorem any_addImpAfter (j : Nat) (is : List Item) :
    (addImpAfter j is).any (fun it => it == Item.imp true) = is.any (fun it => it == Item.imp true) := by
  unfold addImpAfter
  have h : (Item.imp false == Item.imp true) = false := by decide
  rw [List.any_append, List.any_cons, h, Bool.false_or, ← List.any_append, List.take_append_drop]

theorem addImp_refs (j : Nat) (ln : Line) : (ln.addImp j).refs = ln.refs := refs_addImpAfter j ln.items

theorem addImp_dir (j : Nat) (ln : Line) : (ln.addImp j).dir = ln.dir := rfl

theorem addImp_anyDir (j : Nat) (ln : Line) : (ln.addImp j).anyDir = ln.anyDir := rfl

theorem addImp_hasImp (j : Nat) (ln : Line) : (ln.addImp j).hasImpEndingLine = ln.hasImpEndingLine :=
  any_addImpAfter j ln.items

theorem addImpAfter_ne_nil (j : Nat) (is : List Item) : addImpAfter j is ≠ [] := by
  unfold addImpAfter
  intro h
  have := congrArg List.length h
  simp at this

/-! ## `kept` does not see the extra import item -/

theorem raw_insertImpAfter (f : File) (l j : Nat) : raw (insertImpAfter f l j) = raw f :=
  rawFrom_modify _ (addImp_refs j) 0 f l

theorem suppressed_insertImpAfter (f : File) (l j n : Nat) :
    suppressed (insertImpAfter f l j) n = suppressed f n := by
  unfold suppressed insertImpAfter
  rw [dirAt_modify _ (addImp_dir j)]

theorem kept_insertImpAfter (f : File) (l j : Nat) : kept (insertImpAfter f l j) = kept f := by
  unfold kept
  rw [raw_insertImpAfter]
  apply List.filter_congr
  intro d _
  rw [suppressed_insertImpAfter]

/-! ## `WF` under the three operations -/

theorem hasImp_filter {is : List Item} {p : Item → Bool}
    (h : (is.filter p).any (fun it => it == Item.imp true) = true) :
    is.any (fun it => it == Item.imp true) = true := by
  rw [List.any_eq_true] at h ⊢
  obtain ⟨x, hx, hxe⟩ := h
  exact ⟨x, (List.mem_filter.mp hx).1, hxe⟩

theorem wf_dropName {f : File} {first : Nat} (hwf : WF f first) (g : Name) : WF (dropName f g) first := by
  refine ⟨?_, ?_, ?_⟩
  · intro l hl hd
    unfold dropName at hl
    obtain ⟨a, ha, rfl⟩ := List.mem_map.mp hl
    exact hwf.dir_any a ha hd
  · intro i l hl hlt
    rw [getElem?_dropName] at hl
    cases hfi : f[i]? with
    | none => rw [hfi] at hl; cases hl
    | some a =>
      rw [hfi] at hl
      simp only [Option.map_some, Option.some.injEq] at hl
      subst hl
      show a.items.filter _ = []
      rw [hwf.before_first i a hfi hlt]
      rfl
  · intro l hl hd
    unfold dropName at hl
    obtain ⟨a, ha, rfl⟩ := List.mem_map.mp hl
    exact hwf.imp_no_dir a ha (hasImp_filter hd)

theorem mem_insertLine {f : File} {k : Nat} {x : Line} (h : x ∈ insertLine f k) : x ∈ f ∨ x = newLine := by
  unfold insertLine at h
  rw [List.mem_append, List.mem_cons] at h
  rcases h with h | h | h
  · exact Or.inl (List.mem_of_mem_take h)
  · exact Or.inr h
  · exact Or.inl (List.mem_of_mem_drop h)

/-- a new line at or above the first token's line becomes the first token's line -/
theorem wf_insertLine {f : File} {first : Nat} (hwf : WF f first) (k : Nat) (hk : k ≤ f.length) :
    WF (insertLine f k) (if k ≤ first then k else first) := by
  refine ⟨?_, ?_, ?_⟩
  · intro x hx hd
    rcases mem_insertLine hx with h | h
    · exact hwf.dir_any x h hd
    · subst h; exact absurd hd (by decide)
  · intro i ln hl hlt
    have hik : i < k ∧ i < first := by
      by_cases hkf : k ≤ first
      · rw [if_pos hkf] at hlt; omega
      · rw [if_neg hkf] at hlt; omega
    rw [getElem?_insertLine_lt f hk hik.1] at hl
    exact hwf.before_first i ln hl hik.2
  · intro x hx hd
    rcases mem_insertLine hx with h | h
    · exact hwf.imp_no_dir x h hd
    · subst h; rfl

theorem wf_insertImpAfter {f : File} {first : Nat} (hwf : WF f first) (l j : Nat) (hl : first ≤ l) :
    WF (insertImpAfter f l j) first := by
  refine ⟨?_, ?_, ?_⟩
  · intro x hx hd
    obtain ⟨a, ha, h | h⟩ := mem_modify hx
    · subst h; exact hwf.dir_any x ha hd
    · subst h; exact hwf.dir_any a ha hd
  · intro i ln hi hlt
    unfold insertImpAfter at hi
    rw [getElem?_modify'] at hi
    cases hfi : f[i]? with
    | none => rw [hfi] at hi; cases hi
    | some a =>
      rw [hfi] at hi
      have hne : ¬ l = i := by omega
      simp only [Option.map_some, if_neg hne, Option.some.injEq] at hi
      subst hi
      exact hwf.before_first i a hfi hlt
  · intro x hx hd
    obtain ⟨a, ha, h | h⟩ := mem_modify hx
    · subst h; exact hwf.imp_no_dir x ha hd
    · subst h
      rw [addImp_hasImp] at hd
      exact hwf.imp_no_dir a ha hd

/-! ## the most recent import stands on a line that has items -/

def GoodP (f : File) (r : RecentPos) : Prop := ∀ l j, r = some (l, j) → ∃ ln, f[l]? = some ln ∧ ln.items ≠ []

theorem GoodP_none (f : File) : GoodP f none := by
  intro l j h; cases h

theorem recentPosItems_good (f : File) (line : Nat) (r : RecentPos) (j : Nat) (is : List Item)
    (hne : is ≠ [] → ∃ ln, f[line]? = some ln ∧ ln.items ≠ []) (hr : GoodP f r) :
    (∀ p ∈ (recentPosItems line r j is).1, GoodP f p) ∧ GoodP f (recentPosItems line r j is).2 := by
  induction is generalizing r j with
  | nil => exact ⟨(fun p hp => by cases hp), hr⟩
  | cons a as ih =>
    have hne' : as ≠ [] → ∃ ln, f[line]? = some ln ∧ ln.items ≠ [] := fun _ => hne (by simp)
    cases a with
    | ref n =>
      obtain ⟨h1, h2⟩ := ih r (j + 1) hne' hr
      refine ⟨?_, h2⟩
      intro p hp
      have hp : p ∈ r :: (recentPosItems line r (j + 1) as).1 := hp
      rw [List.mem_cons] at hp
      rcases hp with h | h
      · rw [h]; exact hr
      · exact h1 p h
    | imp e =>
      show (∀ p ∈ (recentPosItems line (some (line, j)) (j + 1) as).1, GoodP f p) ∧
        GoodP f (recentPosItems line (some (line, j)) (j + 1) as).2
      apply ih _ _ hne'
      intro l j' h
      simp only [Option.some.injEq, Prod.mk.injEq] at h
      obtain ⟨rfl, _⟩ := h
      exact hne (by simp)

theorem recentPosFrom_good (f : File) (i : Nat) (r : RecentPos) (ls : File)
    (hsuf : ∀ j l, ls[j]? = some l → f[i + j]? = some l) (hr : GoodP f r) :
    ∀ p ∈ recentPosFrom i r ls, GoodP f p := by
  induction ls generalizing i r with
  | nil => intro p hp; cases hp
  | cons a as ih =>
    have ha : f[i]? = some a := hsuf 0 a rfl
    obtain ⟨h1, h2⟩ := recentPosItems_good f i r 0 a.items (fun h => ⟨a, ha, h⟩) hr
    intro p hp
    have hp : p ∈ (recentPosItems i r 0 a.items).1 ++
        recentPosFrom (i + 1) (recentPosItems i r 0 a.items).2 as := hp
    rw [List.mem_append] at hp
    rcases hp with h | h
    · exact h1 p h
    · refine ih (i + 1) _ ?_ h2 p h
      intro j l hj
      have := hsuf (j + 1) l (by simpa using hj)
      have e : i + 1 + j = i + (j + 1) := by omega
      rw [e]; exact this

theorem recentPos_good {f : File} {i l j : Nat} (h : recentPos f i = some (l, j)) :
    ∃ ln, f[l]? = some ln ∧ ln.items ≠ [] := by
  unfold recentPos at h
  cases hr : (recentPosAll f)[i]? with
  | none => rw [hr] at h; cases h
  | some r =>
    rw [hr] at h
    have hmem : r ∈ recentPosFrom 0 none f := List.mem_of_getElem? hr
    have := recentPosFrom_good f 0 none f (fun j l hj => by rw [Nat.zero_add]; exact hj) (GoodP_none f) r hmem
    exact this l j h

theorem recentPos_first_le {f : File} {first : Nat} (hwf : WF f first) {i l j : Nat}
    (h : recentPos f i = some (l, j)) : first ≤ l := by
  obtain ⟨ln, hl, hne⟩ := recentPos_good h
  apply Nat.le_of_not_lt
  intro hlt
  exact hne (hwf.before_first l ln hl hlt)

/-! ## unfolding `fixReal` / `firstAfter` -/

theorem fixReal_newLine {f : File} {first i : Nat} {d : Nat × Name} {k : Nat} (hd : (raw f)[i]? = some d)
    (hw : (wheres f first)[i]? = some (.newLineAt k)) : fixReal f first i = insertLine (dropName f d.2) k := by
  unfold fixReal; rw [hd, hw]

theorem fixReal_sameLine {f : File} {first i : Nat} {d : Nat × Name} (hd : (raw f)[i]? = some d)
    (hw : (wheres f first)[i]? = some .sameLine) :
    fixReal f first i =
      match recentPos f i with
      | some (l, j) => insertImpAfter (dropName f d.2) l j
      | none => dropName f d.2 := by
  unfold fixReal; rw [hd, hw]

theorem firstAfter_newLine {f : File} {first i k : Nat} (hw : (wheres f first)[i]? = some (.newLineAt k)) :
    firstAfter f first i = if k ≤ first then k else first := by
  unfold firstAfter; rw [hw]

theorem firstAfter_sameLine {f : File} {first i : Nat} (hw : (wheres f first)[i]? = some .sameLine) :
    firstAfter f first i = first := by
  unfold firstAfter; rw [hw]

/-! ## `recentPos` is the position of the very import `wheres` places the fix after -/

theorem recentPosItems_ref (line : Nat) (r : RecentPos) (j : Nat) (n : Name) (is : List Item) :
    recentPosItems line r j (.ref n :: is) =
      (r :: (recentPosItems line r (j + 1) is).1, (recentPosItems line r (j + 1) is).2) := rfl

theorem recentPosItems_imp (line : Nat) (r : RecentPos) (j : Nat) (e : Bool) (is : List Item) :
    recentPosItems line r j (.imp e :: is) = recentPosItems line (some (line, j)) (j + 1) is := rfl

theorem recentPosFrom_cons (i : Nat) (r : RecentPos) (l : Line) (ls : File) :
    recentPosFrom i r (l :: ls) =
      (recentPosItems i r 0 l.items).1 ++ recentPosFrom (i + 1) (recentPosItems i r 0 l.items).2 ls := rfl

/-- the two traversal states describe the same import: same line, and the item there is that import -/
def Rel (f : File) : Recent → RecentPos → Prop
  | none, none => True
  | some (l, e), some (l', j) => l' = l ∧ ∃ ln, f[l]? = some ln ∧ ln.items[j]? = some (Item.imp e)
  | _, _ => False

def Agree (f : File) (first : Nat) (x : Where × RecentPos) : Prop :=
  ∃ r, Rel f r x.2 ∧ x.1 = whereOf f first r

theorem agree_items (f : File) (first line : Nat) (ln : Line) (hl : f[line]? = some ln) (r : Recent)
    (p : RecentPos) (j : Nat) (is : List Item) (hsuf : ∀ t, is[t]? = ln.items[j + t]?) (hr : Rel f r p) :
    (wheresItems f first line r is).1.length = (recentPosItems line p j is).1.length ∧
    (∀ x ∈ (wheresItems f first line r is).1.zip (recentPosItems line p j is).1, Agree f first x) ∧
    Rel f (wheresItems f first line r is).2 (recentPosItems line p j is).2 := by
  induction is generalizing r p j with
  | nil => exact ⟨rfl, (fun x hx => by cases hx), hr⟩
  | cons a as ih =>
    have hsuf' : ∀ t, as[t]? = ln.items[j + 1 + t]? := by
      intro t
      have := hsuf (t + 1)
      rw [List.getElem?_cons_succ] at this
      rw [this]; congr 1; omega
    cases a with
    | ref n =>
      obtain ⟨h1, h2, h3⟩ := ih r p (j + 1) hsuf' hr
      rw [wheresItems_ref, recentPosItems_ref]
      refine ⟨?_, ?_, h3⟩
      · show (_ :: _).length = (_ :: _).length
        rw [List.length_cons, List.length_cons, h1]
      · intro x hx
        have hx : x ∈ List.zip (whereOf f first r :: (wheresItems f first line r as).1)
            (p :: (recentPosItems line p (j + 1) as).1) := hx
        rw [List.zip_cons_cons, List.mem_cons] at hx
        rcases hx with h | h
        · rw [h]; exact ⟨r, hr, rfl⟩
        · exact h2 x h
    | imp e =>
      rw [wheresItems_imp, recentPosItems_imp]
      apply ih _ _ _ hsuf'
      show line = line ∧ ∃ ln', f[line]? = some ln' ∧ ln'.items[j]? = some (Item.imp e)
      have := hsuf 0
      rw [List.getElem?_cons_zero, Nat.add_zero] at this
      exact ⟨rfl, ln, hl, this.symm⟩

theorem agree_from (f : File) (first i : Nat) (r : Recent) (p : RecentPos) (ls : File)
    (hsuf : ∀ j l, ls[j]? = some l → f[i + j]? = some l) (hr : Rel f r p) :
    (wheresFrom f first i r ls).length = (recentPosFrom i p ls).length ∧
    ∀ x ∈ (wheresFrom f first i r ls).zip (recentPosFrom i p ls), Agree f first x := by
  induction ls generalizing i r p with
  | nil => exact ⟨rfl, fun x hx => by cases hx⟩
  | cons a as ih =>
    have ha : f[i]? = some a := hsuf 0 a rfl
    obtain ⟨h1, h2, h3⟩ := agree_items f first i a ha r p 0 a.items (fun t => by rw [Nat.zero_add]) hr
    have hsuf' : ∀ j l, as[j]? = some l → f[i + 1 + j]? = some l := by
      intro j l hj
      have := hsuf (j + 1) l (by simpa using hj)
      have e : i + 1 + j = i + (j + 1) := by omega
      rw [e]; exact this
    obtain ⟨g1, g2⟩ := ih (i + 1) _ _ hsuf' h3
    rw [wheresFrom_cons, recentPosFrom_cons]
    refine ⟨by rw [List.length_append, List.length_append, h1, g1], ?_⟩
    intro x hx
    rw [List.zip_append h1, List.mem_append] at hx
    rcases hx with h | h
    · exact h2 x h
    · exact g2 x h

theorem recentPosAll_length (f : File) (first : Nat) : (recentPosAll f).length = (wheres f first).length :=
  (agree_from f first 0 none none f (fun j l hj => by rw [Nat.zero_add]; exact hj) trivial).1.symm

/-- when the fix goes onto the line of the last import, `recentPos` is the position of that import: an item
`.imp false` (the `none` branch of `fixReal` is never taken) -/
theorem recentPos_of_sameLine {f : File} {first i : Nat} (h : (wheres f first)[i]? = some .sameLine) :
    ∃ l j ln, recentPos f i = some (l, j) ∧ f[l]? = some ln ∧ ln.items[j]? = some (Item.imp false) := by
  obtain ⟨g1, g2⟩ := agree_from f first 0 none none f (fun j l hj => by rw [Nat.zero_add]; exact hj) trivial
  have g1 : (wheres f first).length = (recentPosAll f).length := g1
  have g2 : ∀ x ∈ (wheres f first).zip (recentPosAll f), Agree f first x := g2
  have hi : i < (wheres f first).length := (List.getElem?_eq_some_iff.mp h).1
  have hi' : i < (recentPosAll f).length := g1 ▸ hi
  cases hp : (recentPosAll f)[i]? with
  | none =>
    rw [List.getElem?_eq_getElem hi'] at hp; cases hp
  | some q =>
    have hz : (Where.sameLine, q) ∈ (wheres f first).zip (recentPosAll f) :=
      List.mem_of_getElem? (List.getElem?_zip_eq_some.mpr ⟨h, hp⟩)
    obtain ⟨r, hr, hw⟩ := g2 _ hz
    have hr : Rel f r q := hr
    have hw : Where.sameLine = whereOf f first r := hw
    match r, q, hr, hw with
    | none, _, _, hw => exact absurd hw (by simp [whereOf])
    | some (_, true), _, _, hw => exact absurd hw (by simp [whereOf])
    | some (l, false), none, hr, _ => exact hr.elim
    | some (l, false), some (l', j), hr, _ =>
      have hr : l' = l ∧ ∃ ln, f[l]? = some ln ∧ ln.items[j]? = some (Item.imp false) := hr
      obtain ⟨rfl, ln, hl, hj⟩ := hr
      exact ⟨l', j, ln, by unfold recentPos; rw [hp], hl, hj⟩

end DL.Imp
