import DL.Lemmas.RxSpecAtom1

/-! # Soundness w.r.t. the grammar: character classes -/
namespace DL.Rx
open DL.RxSpec DL.Gen.Unicode
attribute [local irreducible] isScalar
variable {src : List Nat} {N : Nat}

/-- `last_int_value` after a class atom: the CharacterValue, or `-1` for a class escape -/
def IntIs (s : St) : Option Nat → Prop
  | some x => s.lastIntValue = (x : Nat)
  | none => s.lastIntValue = -1

theorem consumeClassEscape_wp (n : Nat) (r : List Nat) (s : St) (h : UAt src N r s) :
    Wp (consumeClassEscape n s) (fun b s1 => KeepN s s1 ∧
      if b = true then ∃ r1 v, UAt src N r1 s1 ∧ ClassEscape r r1 v ∧ IntIs s1 v else UAt src N r s1) := by
  unfold consumeClassEscape
  rx4_auto
  all_goals (try rx4_false)
  · rx4_true; exact ⟨_, some 8, by rx4_at, ClassEscape.b _, rfl⟩
  · rx4_true; exact ⟨_, some (c '-'), by rx4_at, ClassEscape.dash _, rfl⟩
  all_goals (try (
    rx4_true
    exact ⟨_, none, ‹UAt src N _ _›, ClassEscape.characterClass _ _ ‹CharacterClassEscape _ _›, ‹_ = -1›⟩))
  all_goals (
    rename_i b s2 hk2 hb
    refine ⟨by rx4_keep, ?_⟩
    cases b
    · rw [if_neg (by decide)] at hb ⊢; exact hb
    · rw [if_pos rfl] at hb ⊢
      obtain ⟨r1, v, hat, hce, hv⟩ := hb
      exact ⟨r1, some v, hat, ClassEscape.character _ r1 v hce, hv⟩)

theorem consumeClassAtom_wp (hsrc : ∀ x ∈ src, x ≤ 0x10FFFF) (n : Nat) (r : List Nat) (s : St) (h : UAt src N r s) :
    Wp (consumeClassAtom n s) (fun b s1 => KeepN s s1 ∧
      if b = true then ∃ r1 v, UAt src N r1 s1 ∧ ClassAtom r r1 v ∧ IntIs s1 v else UAt src N r s1) := by
  unfold consumeClassAtom
  rx4_auto
  all_goals (try rx4_false)
  · rename_i m hn hat0 s1 hk r1 v hat1 hce hv
    rx4_true
    exact ⟨r1, v, hat1, ClassAtom.noDash _ r1 v (ClassAtomNoDash.escape m r1 v hce), hv⟩
  · rename_i x r1 hc hat
    rx4_true
    have hx : x ≠ ch '\\' ∧ x ≠ ch ']' := by simpa using hc
    by_cases hd : x = ch '-'
    · subst hd
      exact ⟨r1, some (c '-'), by rx4_at, ClassAtom.dash r1, rfl⟩
    · exact ⟨r1, some x, by rx4_at, ClassAtom.noDash _ r1 _
        (ClassAtomNoDash.char x r1 (hsrc x (h.mem_src List.mem_cons_self)) hx.1 hx.2 hd), rfl⟩

/-- what the loop of `consume_class_ranges` reads: atoms, ranges, and possibly a trailing `atom -`;
the flag says whether anything was read -/
inductive Items : Bool → Str → Str → Prop
  | nil (r : Str) : Items false r r
  | atom (b : Bool) (r m r1 : Str) (v : Option Nat) : ClassAtom r m v → m.head? ≠ some (c '-') → Items b m r1 →
      Items true r r1
  | range (b : Bool) (r m₁ m₂ r1 : Str) (x y : Option Nat) : ClassAtom r (c '-' :: m₁) x → ClassAtom m₁ m₂ y →
      RangeOk x y → Items b m₂ r1 → Items true r r1
  | trailing (r m : Str) (v : Option Nat) : ClassAtom r (c '-' :: m) v → Items true r m

theorem rangeOk_of {sa sb : St} {x y : Option Nat} (hx : IntIs sa x) (hy : IntIs sb y)
    (h1 : ¬(sa.lastIntValue == -1 || sb.lastIntValue == -1) = true) (h2 : ¬sa.lastIntValue > sb.lastIntValue) :
    RangeOk x y := by
  simp only [Bool.or_eq_true, beq_iff_eq, not_or] at h1
  cases x with
  | none => exact (h1.1 hx).elim
  | some a =>
    cases y with
    | none => exact (h1.2 hy).elim
    | some b =>
      have ha : sa.lastIntValue = (a : Nat) := hx
      have hb : sb.lastIntValue = (b : Nat) := hy
      rw [ha, hb] at h2
      exact ⟨a, b, rfl, rfl, by omega⟩

theorem consumeClassRanges_wp (hsrc : ∀ x ∈ src, x ≤ 0x10FFFF) : ∀ (n : Nat) (r : List Nat) (s : St), UAt src N r s →
    Wp (consumeClassRanges n s) (fun _ s1 => KeepN s s1 ∧ ∃ b r1, Items b r r1 ∧ UAt src N r1 s1)
  | 0, _, _, _ => Wp.outOfFuel
  | n + 1, r, s, h => by
    have ih := consumeClassRanges_wp hsrc n
    unfold consumeClassRanges
    rx4_auto
    · -- a range
      rename_i s1 hk1 x hx m1 hat0 hat1 ha s2 hk2 m2 y hat2 hb hy hne hle _ s3 hk3 b r1 hit hat3
      refine ⟨by rx4_keep, true, r1, Items.range b r m1 m2 r1 x y ha hb (rangeOk_of hx hy hne hle) hit, hat3⟩
    · -- `atom -` at the end
      rename_i s1 hk1 x hx m1 hat0 hat1 ha s2 hk2 hat2
      exact ⟨by rx4_keep, true, m1, Items.trailing r m1 x ha, hat2⟩
    · -- an atom not followed by `-`
      rename_i s1 hk1 m x hat1 ha hx hne _ s2 hk2 b r1 hit hat2
      exact ⟨by rx4_keep, true, r1, Items.atom b r m r1 x ha hne hit, hat2⟩
    · -- no atom
      rename_i s1 hk1 hat1
      exact ⟨hk1, false, r, Items.nil r, hat1⟩

theorem classAtom_noDash {r m : Str} {v : Option Nat} (h : ClassAtom r m v) (hne : r.head? ≠ some (c '-')) :
    ClassAtomNoDash r m v := by
  cases h with
  | dash r => exact (hne rfl).elim
  | noDash i r v h => exact h

theorem items_cr {b : Bool} {r r1 : Str} (h : Items b r r1) :
    CR .ClassRanges r r1 ∧ (b = true → r.head? ≠ some (c '-') → CR .NonemptyClassRangesNoDash r r1) := by
  induction h with
  | nil r => exact ⟨CR.empty r, fun h => by cases h⟩
  | atom b r m r1 v ha hne hrest ih =>
    cases b with
    | false =>
      cases hrest
      exact ⟨CR.nonempty _ _ (CR.atom _ _ v ha), fun _ _ => CR.ndAtom _ _ v ha⟩
    | true =>
      have hnd := ih.2 rfl hne
      exact ⟨CR.nonempty _ _ (CR.atomMore _ _ _ v ha hnd),
        fun _ hr => CR.ndAtomMore _ _ _ v (classAtom_noDash ha hr) hnd⟩
  | range b r m₁ m₂ r1 x y ha hb hok hrest ih =>
    exact ⟨CR.nonempty _ _ (CR.range _ _ _ _ x y ha hb hok ih.1),
      fun _ hr => CR.ndRange _ _ _ _ x y (classAtom_noDash ha hr) hb hok ih.1⟩
  | trailing r m v ha =>
    exact ⟨CR.nonempty _ _ (CR.atomMore _ _ _ v ha (CR.ndAtom _ _ _ (ClassAtom.dash m))),
      fun _ hr => CR.ndAtomMore _ _ _ v (classAtom_noDash ha hr) (CR.ndAtom _ _ _ (ClassAtom.dash m))⟩

theorem consumeCharacterClass_wp (hsrc : ∀ x ∈ src, x ≤ 0x10FFFF) (n : Nat) (r : List Nat) (s : St)
    (h : UAt src N r s) :
    Wp (consumeCharacterClass n s) (fun b s1 => KeepN s s1 ∧
      if b = true then ∃ r1, UAt src N r1 s1 ∧ CharacterClass r r1 else UAt src N r s1) := by
  unfold consumeCharacterClass
  rx4_auto
  all_goals (try rx4_false)
  · rename_i m hat0 hat1 _ s1 hk b r1 hat2 hit hat3
    rx4_true
    exact ⟨r1, by rx4_at, CharacterClass.neg m r1 (items_cr hit).1⟩
  · rename_i m hat0 hne _ s1 hk b r1 hat2 hit hat3
    rx4_true
    exact ⟨r1, by rx4_at, CharacterClass.pos m r1 hne (items_cr hit).1⟩

end DL.Rx
