import DL.Lemmas.RxCompRec5
import DL.Lemmas.RxSpecTop

/-! # Completeness: `consume_pattern`, `validate_pattern` (u-mode) -/
namespace DL.Rx
open DL.RxSpec DL.Gen.Unicode

attribute [local irreducible] isScalar
variable {src : List Nat} {N : Nat}

theorem NE.countCapturingParensLoop : ∀ n ic esc k, NE (DL.Rx.countCapturingParensLoop n ic esc k)
  | 0, _, _, _ => by unfold DL.Rx.countCapturingParensLoop; ne_auto
  | n + 1, ic, esc, k => by
    have ih := NE.countCapturingParensLoop n
    unfold DL.Rx.countCapturingParensLoop
    ne_auto
    all_goals exact ih _ _ _

theorem NE.countCapturingParens (n : Nat) : NE (DL.Rx.countCapturingParens n) := by
  have := NE.countCapturingParensLoop n false false 0
  unfold DL.Rx.countCapturingParens; ne_auto

theorem countCapturingParens_wc (n : Nat) (r : List Nat) (s : St) (h : UAt src N r s) :
    Wc (countCapturingParens n s) (fun v s1 => v = scan r false false 0 ∧ UAt src N r s1 ∧ KeepN s s1) :=
  Wc.of_wp (countCapturingParens_wp n r s h) (NE.countCapturingParens n)

/-- a valid pattern passes `consume_pattern` -/
theorem consumePattern_wc (a : Attr) (hder : Derives qokSat a.groups.length .Disjunction src [] a)
    (hnd : (groupNames a.groups).Nodup) (hrefs : ∀ x ∈ a.refs, x ∈ groupNames a.groups)
    (n : Nat) (s : St) (h : UAt src N src s) :
    Wc (consumePattern n s) (fun _ s1 => s1.nFlag = true) := by
  have hscan : scan src false false 0 = a.groups.length := by
    have := derives_scan hder 0
    rw [this]; simp [scan]
  have hdj : PDj src a.groups.length src [] a := disj_of_body (derives_complete hder) (.inl rfl)
  unfold consumePattern
  refine Wc.call (countCapturingParens_wc n src s h) (fun v s1 hpost => ?_)
  obtain ⟨hv, hat1, hk1⟩ := hpost
  rw [hscan] at hv
  subst hv
  with_reducible refine Wc.bind_modSt ?_
  have hat2 : UAt src a.groups.length src
      { s1 with numCapturingParens := a.groups.length, groupNames := [], backreferenceNames := [] } :=
    ⟨hat1.1, hat1.2.1, hat1.2.2.1, hat1.2.2.2.1, hat1.2.2.2.2.1, rfl⟩
  refine Wc.call (hdj n _ hat2 (by
    show ([] ++ groupNames a.groups).Nodup
    rw [List.nil_append]; exact hnd)) (fun _ s2 hpost => ?_)
  obtain ⟨hat3, htr⟩ := hpost
  rx5_auto
  · rename_i name hfind
    have hmem := List.mem_of_find?_eq_some hfind
    have hp := List.find?_some hfind
    have hin : name ∈ a.refs := by
      rcases (htr.bn name).mp hmem with h | h
      · exact nomatch h
      · exact h
    have hg : name ∈ s2.groupNames := by
      rw [htr.gn]
      exact List.mem_append_right _ (hrefs name hin)
    have : s2.groupNames.contains name = true := List.contains_iff_mem.mpr hg
    rw [this] at hp
    cases hp
  · exact hat3.nFlag'

/-- the prepared state from which `validate_pattern` runs `consume_pattern` -/
theorem validatePattern_wc (a : Attr) (hder : Derives qokSat a.groups.length .Disjunction src [] a)
    (hnd : (groupNames a.groups).Nodup) (hrefs : ∀ x ∈ a.refs, x ∈ groupNames a.groups)
    (fuel : Nat) (st : St) :
    Wc (validatePattern fuel src true st) (fun _ _ => True) := by
  rw [validatePattern_eq]
  have hstat : RStatic src (prep src true st).reader := ⟨rfl, rfl⟩
  have hrw := rewindLoop_eq (src := src) 0 (prep src true st) hstat 4 0 rfl (Nat.zero_le _)
  have hat : UAt src st.numCapturingParens src ((prep src true st).setPos src 0) :=
    ⟨RInv.setPos hstat (Nat.zero_le _), rfl, rfl, rfl, rfl, rfl⟩
  have hcp := fun n s (h : UAt src st.numCapturingParens src s) =>
    consumePattern_wc (src := src) (N := st.numCapturingParens) a hder hnd hrefs n s h
  unfold afterPrep
  refine Wc.bind ?_
  have e : rewindLoop 0 4 0 (prep src true st) = .ok () ((prep src true st).setPos src 0) := hrw
  rw [e]
  refine Wc.ok ?_
  rx5_auto
  all_goals trivial

end DL.Rx
