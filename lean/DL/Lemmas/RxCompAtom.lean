import DL.Lemmas.RxCompQuant
import DL.Lemmas.RxSpecAtom1

/-! # Completeness: the non-recursive atoms (u-mode) -/
namespace DL.Rx
open DL.RxSpec DL.Gen.Unicode

attribute [local irreducible] isScalar
variable {src : List Nat} {N : Nat}

theorem consumeReverseSolidusAtomEscape_wc (n : Nat) (m r1 : List Nat) (a : Attr) (s : St)
    (h : UAt src N (ch '\\' :: m) s) (hD : AtomEscape N m r1 a) :
    Wc (consumeReverseSolidusAtomEscape n s) (fun b s1 => b = true ∧ UAt src N r1 s1 ∧ TrackC s s1 a) := by
  unfold consumeReverseSolidusAtomEscape
  rx5_autos
  exact ⟨rfl, ‹UAt src N r1 _›, TrackC.pre (s1 := s.setPos src (s.reader.index + 1)) ⟨rfl, rfl⟩ ‹TrackC _ _ a›⟩

theorem consumeReverseSolidusAtomEscape_wcn (n : Nat) (r : List Nat) (s : St) (h : UAt src N r s)
    (hn : r.head? ≠ some (ch '\\')) :
    Wc (consumeReverseSolidusAtomEscape n s) (fun b s1 => b = false ∧ s1 = s) := by
  unfold consumeReverseSolidusAtomEscape
  rx5_autos
  exact ⟨rfl, rfl⟩

theorem consumePatternCharacter_wc (x : Nat) (r1 : List Nat) (s : St) (h : UAt src N (x :: r1) s)
    (hx : ¬SyntaxCharacter x) :
    Wc (consumePatternCharacter s) (fun b s1 => b = true ∧ UAt src N r1 s1 ∧ Keep s s1) := by
  have hb : (!isSyntaxCharacter x) = true := by
    cases hs : isSyntaxCharacter x
    · rfl
    · exact absurd ((syntaxCharacter_iff x).mp hs) hx
  unfold consumePatternCharacter
  rx5_autos
  all_goals rx5_fin

/-- at a syntax character (or the end) there is no `PatternCharacter` -/
theorem consumePatternCharacter_wcn (r : List Nat) (s : St) (h : UAt src N r s)
    (hx : ∀ x, r.head? = some x → SyntaxCharacter x) :
    Wc (consumePatternCharacter s) (fun b s1 => b = false ∧ s1 = s) := by
  unfold consumePatternCharacter
  rx5_autos
  all_goals (try exact ⟨rfl, rfl⟩)
  rename_i x r' hc _
  exfalso
  rw [(syntaxCharacter_iff x).mpr (hx x rfl)] at hc
  cases hc

end DL.Rx
