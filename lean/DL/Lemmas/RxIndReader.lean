import DL.Lemmas.RxIndTac

/-! # History independence: reader, tables -/
namespace DL.Rx
attribute [local irreducible] isScalar
variable {c : Bool}
set_option linter.unusedSimpArgs false

theorem I.codePointWithOffset (W : RegSet) (k : Nat) : Ind c W (codePointWithOffset k) (fun _ => W) := by
  unfold DL.Rx.codePointWithOffset; rx2_auto

theorem I.index (W : RegSet) : Ind c W index (fun _ => W) := by
  unfold DL.Rx.index; rx2_auto

theorem I.readerAt (W : RegSet) (i : Nat) : Ind c W (readerAt i) (fun _ => W) := by
  unfold DL.Rx.readerAt; rx2_auto

theorem I.pushBack (W : RegSet) (x : Nat) : Ind c W (pushBack x) (fun _ => W) := by
  unfold DL.Rx.pushBack; rx2_auto

theorem I.rewindLoop (W : RegSet) (idx : Nat) : ∀ k i, Ind c W (rewindLoop idx k i) (fun _ => W)
  | 0, _ => by unfold DL.Rx.rewindLoop; rx2_auto
  | k + 1, i => by
    have ih := I.rewindLoop W idx k (i + 1)
    unfold DL.Rx.rewindLoop; rx2_auto

theorem I.rewind (W : RegSet) (i : Nat) : Ind c W (rewind i) (fun _ => W) := by
  unfold DL.Rx.rewind; rx2_auto

theorem I.advance (W : RegSet) : Ind c W advance (fun _ => W) := by
  unfold DL.Rx.advance; rx2_auto

theorem I.eat (W : RegSet) (x : Char) : Ind c W (eat x) (fun _ => W) := by
  unfold DL.Rx.eat; rx2_auto

theorem I.eat2 (W : RegSet) (x y : Char) : Ind c W (eat2 x y) (fun _ => W) := by
  unfold DL.Rx.eat2; rx2_auto

theorem I.eat3 (W : RegSet) (x y z : Char) : Ind c W (eat3 x y z) (fun _ => W) := by
  unfold DL.Rx.eat3; rx2_auto

end DL.Rx
