import DL.Lemmas.RxBCompWc
import DL.Lemmas.RxBTac
import DL.Lemmas.RxCompTac

/-! # Annex B (no `u` flag), completeness: the stepping tactic for `Wc` and `BAt`
(the one for `UAt`, renamed: `rx5_*` ↦ `rx7_*`, specifications `<fn>_wc`, `_wcn` ↦ `<fn>_wd`, `_wdn`) -/
namespace DL.Rx

open Lean Elab Tactic Meta in
/-- succeeds iff the computation of the `Wc` goal is `if … then … else …` (`bind = false`) or
`(if … then … else …) >>= g` (`bind = true`) — a syntactic test -/
def headIsIteD (bind : Bool) : TacticM Unit := do
  let g ← getMainGoal
  let t ← instantiateMVars (← g.getType)
  unless t.isAppOfArity ``DL.Rx.Wc 3 do throwError "not a Wp goal"
  let comp := t.getAppArgs[1]!.appFn!
  if bind then
    unless comp.isAppOfArity ``Bind.bind 6 do throwError "not a bind"
    unless (comp.getAppArgs[4]!).isAppOfArity ``ite 5 do throwError "not an ite"
  else
    unless comp.isAppOfArity ``ite 5 do throwError "not an ite"

elab "rx7_is_ite" : tactic => headIsIteD false
elab "rx7_is_bind_ite" : tactic => headIsIteD true

open Lean Elab Tactic Meta in
/-- candidates for "the `BAt` fact of the current state": hypotheses about exactly the state term of the `Wc` goal,
and hypotheses about states that differ from it by record updates outside the reader and the mode fields (transported
with `BAt.of_eq`, elaborated at default transparency) -/
def uatHereD : TacticM (Array (TSyntax `term)) := do
  let g ← getMainGoal
  g.withContext do
    let t ← instantiateMVars (← g.getType)
    unless t.isAppOfArity ``DL.Rx.Wc 3 do return #[]
    let st := t.getAppArgs[1]!.appArg!
    let stx ← Term.exprToSyntax st
    let decls := (← getLCtx).decls.toList.reverse.filterMap id
    let mut out : Array (TSyntax `term) := #[]
    for decl in decls do
      if decl.isImplementationDetail then continue
      let ty ← instantiateMVars decl.type
      unless ty.isAppOfArity ``DL.Rx.BAt 4 do continue
      let h ← Term.exprToSyntax (mkFVar decl.fvarId)
      if ty.getAppArgs[3]! == st then
        out := out.push h
      else
        let saved ← saveState
        try
          let e ← Tactic.elabTerm (← `((BAt.of_eq $h rfl rfl rfl rfl rfl : BAt _ _ _ $stx))) none
          let e ← instantiateMVars e
          if e.hasExprMVar then restoreState saved
          else out := out.push (← Term.exprToSyntax e)
        catch _ => restoreState saved
    return out

open Lean Elab Tactic Meta in
/-- the reader primitives (`code_point_with_offset(0)`, `eat`, `advance`, `rewind`) at the head of the computation -/
elab "rx7_prim" : tactic => do
  let here ← uatHereD
  let cands ← uatCandidatesB
  for h in here do
    let saved ← saveState
    try
      evalTactic (← `(tactic| first
        | (with_reducible refine WcB.bind_cpo0 $h (fun hr => ?nil) (fun _ _ hr => ?cons);
           (case' nil => first | subst hr | cases hr); (case' cons => first | subst hr | cases hr))
        | (with_reducible refine WcB.bind_eat_ne $h ?hne ?_;
           (case hne => first | with_reducible assumption | exact head_ne_of_ne (by decide) _ | exact nil_head_ne _))
        | (with_reducible refine WcB.bind_eat $h (fun _ hr _ => ?t) (fun hf => ?f); (case' t => first | subst hr | cases hr);
           (case' f => first | (exact absurd rfl hf) | skip))
        | (with_reducible refine WcB.bind_eat2_ne $h ?hne ?_;
           (case hne => rx5_ne2))
        | (with_reducible refine WcB.bind_eat3_ne $h ?hne ?_;
           (case hne => rx5_ne3))
        | (with_reducible refine WcB.bind_eat2 $h (fun _ hr _ => ?t) (fun hf => ?f); (case' t => first | subst hr | cases hr);
           (case' f => first | (exact absurd ⟨_, rfl⟩ hf) | skip))
        | (with_reducible refine WcB.bind_eat3 $h (fun _ hr _ => ?t) (fun hf => ?f); (case' t => first | subst hr | cases hr);
           (case' f => first | (exact absurd ⟨_, rfl⟩ hf) | skip))
        | with_reducible refine WcB.bind_advance_cons $h (fun _ => ?_)
        | with_reducible refine WcB.bind_advance_nil $h ?_
        | with_reducible refine WcB.bind_cpo $h (by decide) ?_))
      return
    catch _ => restoreState saved
  for h in here do
    for h0 in cands do
      let saved ← saveState
      try
        evalTactic (← `(tactic| with_reducible refine WcB.bind_rewind $h $h0 (fun _ => ?_)))
        return
      catch _ => restoreState saved
  for h in here do
    let saved ← saveState
    try
      evalTactic (← `(tactic| with_reducible refine WcB.bind_rewind' $h ?hle (fun _ => ?_)))
      evalTactic (← `(tactic| case hle => first | assumption | omega))
      return
    catch _ => restoreState saved
  throwError "rx7_prim: no reader primitive applies"

/-- side conditions of a conditional specification -/
syntax "rx7_side" : tactic
macro_rules
  | `(tactic| rx7_side) => `(tactic| first
    | with_reducible assumption
    | omega
    | rfl
    | exact head_ne_of_ne (by decide) _
    | exact nil_head_ne _
    | (intro h; cases h; done)
    | (refine ⟨?_, ?_⟩ <;> rx7_side)
    | decide)

open Lean Elab Tactic Meta in
/-- `f args >>= g` for an `f` with a specification `DL.Rx.S.f`: hypotheses of the specification are looked up with
`rx6_at`; the postcondition becomes a hypothesis -/
elab "rx7_known" : tactic => do
  let g ← getMainGoal
  g.withContext do
    let t ← instantiateMVars (← g.getType)
    unless t.isAppOfArity ``DL.Rx.Wc 3 do throwError "rx7_known: not a Wp goal"
    let res := t.getAppArgs[1]!
    -- res = (m >>= g) s
    let comp := res.appFn!
    unless comp.isAppOfArity ``Bind.bind 6 do throwError "rx7_known: not a bind"
    let m := comp.getAppArgs[4]!
    let .const n _ := m.getAppFn | throwError "rx7_known: no head constant"
    let mut fns : Array (TSyntax `term × Expr) := #[]
    for decl in (← getLCtx) do
      if decl.isImplementationDetail then continue
      let ty ← instantiateMVars decl.type
      let hit ← withNewMCtxDepth do
        let (_, _, concl) ← forallMetaTelescope ty
        if concl.isAppOfArity ``DL.Rx.Wc 3 then
          match concl.getAppArgs[1]!.appFn!.getAppFn with
          | .const n' _ => pure (n' == n)
          | _ => pure false
        else pure false
      if hit then
        fns := fns.push (← Term.exprToSyntax (mkFVar decl.fvarId), ty)
    if fns.isEmpty then
      let .str _ last := n | throwError "rx7_known: anonymous"
      for suf in ["_wd", "_wdn", "_wdm"] do
        let lem := Name.str `DL.Rx (last ++ suf)
        if let some ci := (← getEnv).find? lem then
          fns := fns.push (mkIdent lem, ci.type)
    if fns.isEmpty then throwError "rx7_known: no lemma for {n}"
    let cands0 ← uatHereD
    let hole ← `(_)
    for (f, ty) in fns do
      -- kinds of the explicit arguments: 0 = data fixed by the goal or the `BAt` fact, 1 = a `BAt` hypothesis,
      -- 2 = another hypothesis, 3 = data fixed only by the side conditions
      let kinds ← forallTelescope ty fun xs concl => do
        let mut ks : Array Nat := #[]
        let mut anchor : Array Expr := #[concl.getAppArgs[1]!]
        for x in xs do
          let d ← x.fvarId!.getDecl
          if d.binderInfo.isExplicit && d.type.isAppOfArity ``DL.Rx.BAt 4 then anchor := anchor.push d.type
        for x in xs do
          let d ← x.fvarId!.getDecl
          if d.binderInfo.isExplicit then
            if d.type.isAppOfArity ``DL.Rx.BAt 4 then ks := ks.push 1
            else if ← isProp d.type then ks := ks.push 2
            else if anchor.any (fun e => e.containsFVar x.fvarId!) then ks := ks.push 0
            else ks := ks.push 3
        return ks
      let cands := if kinds.contains 1 then cands0 else #[hole]
      for h in cands do
        let saved ← saveState
        try
          let mut args : Array (TSyntax `term) := #[]
          let mut holes := 0
          for k in kinds do
            if k == 0 then args := args.push (← `(_))
            else if k == 1 then args := args.push h
            else
              args := args.push (← `(?_))
              holes := holes + 1
          evalTactic (← `(tactic| refine Wc.call ($f $args*) (fun _ _ hpost => ?_)))
          let gs ← getGoals
          let side := gs.take holes
          let rest := gs.drop holes
          for sg in side do
            if ← sg.isAssigned then continue
            let isP ← sg.withContext do isProp (← sg.getType)
            if isP then
              setGoals [sg]
              evalTactic (← `(tactic| rx7_side))
          for sg in side do
            unless ← sg.isAssigned do throwError "rx7_known: undetermined argument"
          setGoals rest
          evalTactic (← `(tactic| rx4_destruct))
          return
        catch _ => restoreState saved
    throwError "rx7_known: the specification of {n} does not apply"

open Lean Elab Tactic Meta in
/-- decide the mode test (`u_flag`, `strict`, `n_flag`) that is the condition of the `if` at the head of the computation,
from the `BAt` facts; only the condition is simplified, the state terms are left alone -/
elab "rx7_modes" : tactic => do
  let facts ← factTermsB
  let g ← getMainGoal
  let cstx ← g.withContext do
    let t ← instantiateMVars (← g.getType)
    unless t.isAppOfArity ``DL.Rx.Wc 3 do throwError "not a Wp goal"
    let comp := t.getAppArgs[1]!.appFn!
    let ite := if comp.isAppOfArity ``Bind.bind 6 then comp.getAppArgs[4]! else comp
    unless ite.isAppOfArity ``ite 5 do throwError "not an ite"
    Term.exprToSyntax ite.getAppArgs[1]!
  evalTactic (← `(tactic| first
    | (have hcond : $cstx := by
         first
         | rfl
         | decide
         | ((try dsimp only [st_simp])
            simp only [$[$facts:term],*, *, Bool.or_true, Bool.true_or, Bool.or_self, Bool.and_self,
              Bool.not_true, Bool.not_false, Bool.and_true, Bool.true_and, Bool.and_false, Bool.false_and,
              Bool.false_or, Bool.or_false, Bool.false_eq_true])
       rw [if_pos hcond]; clear hcond)
    | (have hcond : ¬ $cstx := by
         first
         | decide
         | ((try dsimp only [st_simp])
            simp only [$[$facts:term],*, *, Bool.or_true, Bool.true_or, Bool.or_self, Bool.and_self,
              Bool.not_true, Bool.not_false, Bool.and_true, Bool.true_and, Bool.and_false, Bool.false_and,
              Bool.false_or, Bool.or_false, Bool.false_eq_true, not_false_eq_true])
       rw [if_neg hcond]; clear hcond)))

macro "rx7_step" : tactic => `(tactic| (show Wc _ _; first
  | (rx7_is_ite; rx7_modes)
  | (rx7_is_bind_ite; rx7_modes)
  | (rx7_is_ite; refine Wc.ite (fun hc => ?pos) (fun hn => ?neg);
     (case' pos => first | contradiction | (exact absurd hc (by decide)) | (subst hc; rx4_iteh; rx4_destruct)
                         | (simp only [Bool.not_eq_true'] at hc; subst hc; rx4_iteh; rx4_destruct) | skip);
     (case' neg => first | contradiction | (exact absurd (by decide) hn)
                         | (simp only [Bool.not_eq_true, Bool.not_eq_true', Bool.not_eq_false] at hn; subst hn; rx4_iteh; rx4_destruct) | skip))
  | (rx7_is_bind_ite; refine Wc.bind_ite (fun hc => ?pos) (fun hn => ?neg);
     (case' pos => first | contradiction | (exact absurd hc (by decide)) | (subst hc; rx4_iteh; rx4_destruct)
                         | (simp only [Bool.not_eq_true'] at hc; subst hc; rx4_iteh; rx4_destruct) | skip);
     (case' neg => first | contradiction | (exact absurd (by decide) hn)
                         | (simp only [Bool.not_eq_true, Bool.not_eq_true', Bool.not_eq_false] at hn; subst hn; rx4_iteh; rx4_destruct) | skip))
  | with_reducible refine Wc.bind_pure ?_
  | with_reducible refine Wc.bind_assoc ?_
  | with_reducible refine Wc.bind_orM ?_
  | with_reducible refine Wc.bind_andM ?_
  | with_reducible refine Wc.bind_getSt ?_
  | with_reducible refine Wc.bind_index ?_
  | (with_reducible refine Wc.bind_fail ?_; first | contradiction | skip)
  | with_reducible exact Wc.bind_outOfFuel
  | with_reducible exact Wc.bind_rustPanic
  | with_reducible exact Wc.outOfFuel
  | with_reducible refine Wc.bind_unwrap (fun _ _ => ?_)
  | with_reducible refine Wc.bind_setInt ?_
  | with_reducible refine Wc.bind_setStr ?_
  | with_reducible refine Wc.bind_modSt ?_
  | rx7_prim
  | rx7_known
  | (with_reducible refine Wc.pure ?_)
  | dsimp only
  | split
  | ((fail_if_success (with_reducible refine Wc.bind ?_));
     (fail_if_success (with_reducible refine Wc.pure ?_)); with_reducible refine Wc.tail ?_)))

macro "rx7_auto" : tactic => `(tactic| repeat' rx7_step)
/-- like `rx7_auto`, substituting explicit state equations as they appear -/
macro "rx7_autos" : tactic => `(tactic| repeat' (rx7_step <;> rx4_subst))

/-- close a conjunction of the routine kinds of leaf facts (leaves the others) -/
macro "rx7_fin" : tactic => `(tactic| (
  repeat' (with_reducible refine And.intro ?_ ?_)
  all_goals (try first | rfl | rx6_at | rx6_keep | with_reducible assumption | (st_norm; done) | (st_norm; omega))))

/-- close a leaf: contradictory, or routine -/
macro "rx7_close" : tactic => `(tactic| first
  | contradiction
  | (exact absurd rfl ‹_ ≠ _›)
  | (rx7_fin; done))


end DL.Rx
