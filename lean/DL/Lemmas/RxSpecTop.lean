import DL.Lemmas.RxSpecScan
import DL.Lemmas.RxIndTop

/-! # Soundness w.r.t. the grammar: `consume_pattern`, `validate_pattern` -/
namespace DL.Rx
open DL.RxSpec DL.Gen.Unicode
attribute [local irreducible] isScalar
variable {src : List Nat} {N : Nat}

theorem consumePattern_wp (hsrc : ∀ x ∈ src, x ≤ 0x10FFFF) (hlen : src.length < 2 ^ 62) (n : Nat) (r : List Nat)
    (s : St) (h : UAt src N r s) :
    Wp (consumePattern n s) (fun _ s1 => s1.nFlag = true ∧ ∃ a : Attr,
      Derives qokSat (scan r false false 0) .Disjunction r [] a ∧
      (groupNames a.groups).Nodup ∧ ∀ x ∈ a.refs, x ∈ groupNames a.groups) := by
  have hrl : r.length ≤ src.length := by
    rw [← h.rest, List.length_drop]; omega
  have hN : scan r false false 0 < 2 ^ 62 := by
    have := scan_le r false false 0; omega
  have hall := allSpec (src := src) (N := scan r false false 0) hN hsrc n
  have hd := hall.disjunction
  unfold consumePattern
  rx4_step
  with_reducible refine Wp.bind_modSt ?_
  rename_i v s1 hv hat1 hk1
  subst hv
  have hat2 : UAt src (scan r false false 0) r
      { s1 with numCapturingParens := scan r false false 0, groupNames := [], backreferenceNames := [] } :=
    ⟨hat1.1, hat1.2.1, hat1.2.2.1, hat1.2.2.2.1, hat1.2.2.2.2.1, rfl⟩
  refine Wp.call (hd r _ hat2) (fun _ s2 hpost => ?_)
  obtain ⟨r1, a, hat3, hder, htr⟩ := hpost
  rx4_auto
  rename_i hfind
  refine ⟨hat3.nFlag', a, hder, ?_, ?_⟩
  · have := htr.nodup List.nodup_nil
    rw [htr.gn] at this
    exact this
  · intro x hx
    have hx1 := htr.refs x hx
    have hnone := List.find?_eq_none.mp hfind x hx1
    have hc : s2.groupNames.contains x = true := by simpa using hnone
    have := List.contains_iff_mem.mp hc
    rw [htr.gn] at this
    exact this

/-- soundness of `validate_pattern` in u-mode, with the model's own count of capturing groups -/
theorem validatePattern_sound_scan (fuel : Nat) (src : List Nat) (st s' : St) (hsrc : ∀ x ∈ src, x ≤ 0x10FFFF)
    (hlen : src.length < 2 ^ 62) (h : validatePattern fuel src true st = .ok () s') :
    ∃ a : Attr, Derives qokSat (scan src false false 0) .Disjunction src [] a ∧
      (groupNames a.groups).Nodup ∧ ∀ x ∈ a.refs, x ∈ groupNames a.groups := by
  rw [validatePattern_eq] at h
  have hstat : RStatic src (prep src true st).reader := ⟨rfl, rfl⟩
  have hrw := rewindLoop_eq (src := src) 0 (prep src true st) hstat 4 0 rfl (Nat.zero_le _)
  have hat : UAt src st.numCapturingParens src ((prep src true st).setPos src 0) :=
    ⟨RInv.setPos hstat (Nat.zero_le _), rfl, rfl, rfl, rfl, rfl⟩
  have key : Wp (afterPrep fuel (prep src true st)) (fun _ _ => ∃ a : Attr,
      Derives qokSat (scan src false false 0) .Disjunction src [] a ∧
      (groupNames a.groups).Nodup ∧ ∀ x ∈ a.refs, x ∈ groupNames a.groups) := by
    unfold afterPrep
    refine Wp.bind ?_
    have e : rewindLoop 0 4 0 (prep src true st) = .ok () ((prep src true st).setPos src 0) := hrw
    rw [e]
    refine Wp.ok ?_
    rx4_auto
    · exact ⟨_, ‹Derives _ _ _ _ _ _›, ‹List.Nodup _›, ‹∀ x ∈ _, _›⟩
    · rename_i hnf _ _ _ _ hc
      rw [hnf] at hc
      cases hc
  rw [h] at key
  exact key

end DL.Rx
