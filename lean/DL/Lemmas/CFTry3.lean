import DL.Lemmas.CFTry2

/-! Soundness invariant, `try`: the handler phase. -/
namespace DL.CF

/-- the state the catch clause is visited from -/
def handlerStart (prev : Option End) (a1 : A) : A :=
  { (if a1.sc.mayThrow then a1.setEnd prev else a1) with
    sc := { (if a1.sc.mayThrow then a1.setEnd prev else a1).sc with mayThrow := false } }

theorem tryHandler_true (cp : Nat) (ck : Kids) (prev : Option End) (a1 : A) :
    tryHandler true cp ck prev a1 =
      tryCatchJoin a1.sc.end_ a1.sc.mayThrow (withChild .catch_ cp (visitKids ck) (handlerStart prev a1)) := rfl

theorem handlerStart_facts (prev : Option End) (a1 : A) :
    (handlerStart prev a1).info = a1.info ∧ (handlerStart prev a1).sc.foundBreak = a1.sc.foundBreak ∧
    (handlerStart prev a1).sc.foundContinue = a1.sc.foundContinue ∧ (handlerStart prev a1).sc.mayThrow = false ∧
    (handlerStart prev a1).sc.end_ = (if a1.sc.mayThrow then prev else a1.sc.end_) := by
  unfold handlerStart
  cases a1.sc.mayThrow <;> simp [A.setEnd]

theorem handler_ok (live : Bool) (us ps : List Nat) (B : Compl) (rx ix : Nat → Bool) (cp : Nat) (ck : Kids) (a a1 : A)
    (hx : PostL live us ps B rx ix a a1)
    (hs0 : stopsEnd a.sc.end_ = true → live = false) (hmt0 : a.sc.mayThrow = false)
    (hfresh : ∀ q ∈ ck.positions, a.info.endAt q = none) (hnq : ck.positions.Nodup)
    (hdisj : ∀ q, q ∈ ps → q ∈ ck.positions → False)
    (hus : ∀ q, q ∈ us → q ∈ ps) (hrx : ∀ q, q ∉ ps → rx q = false) (hix : ∀ q, q ∉ ps → ix q = false)
    (ih : ∀ child, Pre (live && B.t) ck.positions child →
      PostL (live && B.t) ck.upos ck.positions ck.catchCompl ck.catchReach ck.inner child (visitKids ck child)) :
    PostL live (us ++ ck.upos) (ps ++ (cp :: ck.positions)) (tryCatchCompl B true ck.catchCompl)
      (fun q => rx q || (B.t && ck.catchReach q)) (fun q => ix q || ck.inner q) a
      (tryHandler true cp ck a.sc.end_ a1) := by
  rw [tryHandler_true]
  obtain ⟨hsi, hsb, hsc, hsm, hse⟩ := handlerStart_facts a.sc.end_ a1
  generalize handlerStart a.sc.end_ a1 = x at hsi hsb hsc hsm hse
  -- the child scope
  have hnotT : a1.sc.mayThrow = false → (live && B.t) = false := by
    intro h
    cases hh : (live && B.t) with
    | false => rfl
    | true => rw [hx.pT hh] at h; cases h
  have hprec : Pre (live && B.t) ck.positions (childA .catch_ x) := by
    refine childA_pre _ .catch_ _ x ?_ ?_ hnq
    · intro h
      rw [hse] at h
      cases hm : a1.sc.mayThrow with
      | true => rw [hm] at h; simp [hs0 (by simpa using h)]
      | false => exact hnotT hm
    · intro q hq
      rw [hsi, endAt_eq_of_info_eq (hx.frame q (fun h => hdisj q h hq))]
      exact hfresh q hq
  have hy := ih _ hprec
  obtain ⟨wur, winfo, wfc, wmt, wfb1, wfb2, wstop⟩ := withChild_mark .catch_ (Or.inl rfl) cp (visitKids ck) x
  generalize visitKids ck (childA .catch_ x) = c at hy wur winfo wfc wmt wfb1 wfb2 wstop
  generalize withChild .catch_ cp (visitKids ck) x = y at wur winfo wfc wmt wfb1 wfb2 wstop
  obtain ⟨jfb, jfc, jmt⟩ := tryCatchJoin_sc a1.sc.end_ a1.sc.mayThrow y
  have jinfo := tryCatchJoin_info a1.sc.end_ a1.sc.mayThrow y
  have hH := ck.catchCompl
  have hn : (tryCatchCompl B true ck.catchCompl).n = (B.n || (B.t && ck.catchCompl.n)) := by simp [tryCatchCompl]
  have hb : (tryCatchCompl B true ck.catchCompl).b = (B.b || (B.t && ck.catchCompl.b)) := by simp [tryCatchCompl]
  have hc : (tryCatchCompl B true ck.catchCompl).c = (B.c || (B.t && ck.catchCompl.c)) := by simp [tryCatchCompl]
  have hl : (tryCatchCompl B true ck.catchCompl).hasCl = (B.hasCl || (B.t && ck.catchCompl.hasCl)) := by
    simp only [tryCatchCompl, if_true, union_hasCl, guard_hasCl]; rfl
  have ht : (tryCatchCompl B true ck.catchCompl).t = (B.t && ck.catchCompl.t) := by simp [tryCatchCompl]
  have hcr_false : ∀ q, q ∉ ck.positions → ck.catchReach q = false := fun q hq => by
    cases hr : ck.catchReach q with
    | false => rfl
    | true => exact absurd (ck.catchReach_mem q hr) hq
  refine ⟨?_, ?_, ?_, ?_, ?_, ?_, ?_, ?_, ?_, ?_, ?_⟩
  · -- p1
    intro hst
    rw [hn]
    cases hm : a1.sc.mayThrow with
    | false =>
      rw [hm, tryCatchJoin_false] at hst
      have h1 := hx.p1 hst
      have h2 := hnotT hm
      revert h1 h2; cases live <;> cases B.n <;> cases B.t <;> simp
    | true =>
      rw [hm] at hst
      obtain ⟨s1, s2⟩ := tryCatchJoin_stops _ _ hst
      have h1 := hx.p1 s1
      have h2 : (live && B.t && ck.catchCompl.n) = false := by
        rcases wstop s2 with h | h
        · rw [hse, hm] at h; simp [hs0 (by simpa using h)]
        · exact hy.p1 h
      revert h1 h2; cases live <;> cases B.n <;> cases B.t <;> cases ck.catchCompl.n <;> simp
  · intro hh
    rw [hb] at hh; rw [jfb]
    cases h1 : (live && B.b) with
    | true => exact wfb2 (by rw [hsb]; exact hx.p2 h1)
    | false =>
      apply wfb1; apply hy.p2
      revert hh h1; cases live <;> cases B.b <;> cases B.t <;> simp
  · intro hh
    rw [hc] at hh; rw [jfc, wfc]
    cases h1 : (live && B.c) with
    | true => rw [hsc, hx.p2c h1]; rfl
    | false =>
      have : c.sc.foundContinue = true := by
        apply hy.p2c
        revert hh h1; cases live <;> cases B.c <;> cases B.t <;> simp
      rw [this]; simp
  · intro hh; rw [jfb]; exact wfb2 (by rw [hsb]; exact hx.monoB hh)
  · intro hh; rw [jfc, wfc, hsc, hx.monoC hh]; rfl
  · intro hh
    rw [hl] at hh; rw [jfc, wfc]
    cases h1 : (live && B.hasCl) with
    | true => rw [hsc, hx.p2l h1]; rfl
    | false =>
      have : c.sc.foundContinue = true := by
        apply hy.p2l
        revert hh h1; cases live <;> cases B.hasCl <;> cases B.t <;> simp
      rw [this]; simp
  · intro q hq hu
    rw [jinfo, wur] at hu
    rcases List.mem_append.mp hq with hq | hq
    · have hnq' : q ∉ ck.positions := fun h => hdisj q (hus q hq) h
      rw [ur_eq_of_info_eq (hy.frame q hnq')] at hu
      simp only [childA] at hu; rw [hsi] at hu
      have := hx.p3 q hq hu
      simp only [hcr_false q hnq', Bool.and_false, Bool.or_false]; exact this
    · have hnp : q ∉ ps := fun h => hdisj q h (Kids.upos_sub ck q hq)
      have := hy.p3 q hq hu
      simp only [hrx q hnp, Bool.false_or]
      revert this; cases live <;> cases B.t <;> simp
  · intro q hq hu
    rw [jinfo, wur] at hu
    rcases List.mem_append.mp hq with hq | hq
    · have hnq' : q ∉ ck.positions := fun h => hdisj q (hus q hq) h
      rw [ur_eq_of_info_eq (hy.frame q hnq')] at hu
      simp only [childA] at hu; rw [hsi] at hu
      simp [hx.p3i q hq hu, Kids.inner_false ck q hnq']
    · have hnp : q ∉ ps := fun h => hdisj q h (Kids.upos_sub ck q hq)
      simp [hy.p3i q hq hu, hix q hnp]
  · intro q hq
    simp only [List.mem_append, List.mem_cons, not_or] at hq
    rw [jinfo, winfo q hq.2.1, hy.frame q hq.2.2]
    simp only [childA]; rw [hsi]
    exact hx.frame q hq.1
  · intro hh; rw [hmt0] at hh; cases hh
  · intro hh
    rw [ht] at hh; rw [jmt, wmt]
    have : c.sc.mayThrow = true := by
      apply hy.pT
      revert hh; cases live <;> cases B.t <;> simp
    rw [this]; simp

end DL.CF
