import DL.Lemmas.CFExec8
import DL.Lemmas.CFFrag

/-! Whole programs, completeness on the fragment: everything `Program.reachable` says is reached, is reached by the
inductive semantics. -/
namespace DL.CF

/-- on the fragment, `inner` only comes from the function bodies listed (whose statements are again in the fragment) -/
def InnerFrom (gs : List Getter) (inn : Nat → Bool) : Prop :=
  ∀ p, inn p = true → ∃ g ∈ gs, g.body.inF = true ∧ g.reach p = true

theorem InnerFrom.nil {inn : Nat → Bool} (h : ∀ p, inn p = false) : InnerFrom [] inn :=
  fun p hp => by rw [h p] at hp; cases hp
theorem InnerFrom.append {g1 g2 : List Getter} {i1 i2 : Nat → Bool} (h1 : InnerFrom g1 i1) (h2 : InnerFrom g2 i2) :
    InnerFrom (g1 ++ g2) (fun p => i1 p || i2 p) := by
  intro p hp
  rcases (Bool.or_eq_true _ _).mp hp with h | h
  · obtain ⟨g, hg, hr⟩ := h1 p h; exact ⟨g, List.mem_append.mpr (Or.inl hg), hr⟩
  · obtain ⟨g, hg, hr⟩ := h2 p h; exact ⟨g, List.mem_append.mpr (Or.inr hg), hr⟩
theorem InnerFrom.congr {gs : List Getter} {i1 i2 : Nat → Bool} (h : InnerFrom gs i1) (he : ∀ p, i2 p = i1 p) : InnerFrom gs i2 :=
  fun p hp => h p (by rw [← he]; exact hp)
theorem InnerFrom.mono {gs gs' : List Getter} {inn : Nat → Bool} (h : InnerFrom gs inn) (hs : ∀ g, g ∈ gs → g ∈ gs') :
    InnerFrom gs' inn := fun p hp => by obtain ⟨g, hg, hr⟩ := h p hp; exact ⟨g, hs g hg, hr⟩

mutual
theorem Stmt.inner_complete : ∀ (s : Stmt), s.inF = true → InnerFrom s.getters s.inner
  | .simple _ _ kids, hf => (Kids.inner_complete kids (by simpa [Stmt.inF] using hf)).congr (fun _ => rfl)
  | .block _ b, hf => (Stmts.inner_complete b (by simpa [Stmt.inF] using hf)).congr (fun _ => rfl)
  | .ifS _ t c none, hf =>
    have hf' := inF_if_none hf
    ((Kids.inner_complete t hf'.1).append (Stmt.inner_complete c hf'.2)).congr (fun _ => rfl)
  | .ifS _ t c (some a), hf =>
    have hf' := inF_if_some hf
    ((Kids.inner_complete t hf'.1.1).append ((Stmt.inner_complete c hf'.1.2).append (Stmt.inner_complete a hf'.2))).congr
      (fun p => by simp [Stmt.inner, Bool.or_assoc])
  | .whileS _ t _ b, hf =>
    have hf' := inF_while hf
    ((Kids.inner_complete t hf'.1).append (Stmt.inner_complete b hf'.2)).congr (fun _ => rfl)
  | .doWhileS _ b t _, hf =>
    have hf' := inF_doWhile hf
    ((Kids.inner_complete t hf'.1).append (Stmt.inner_complete b hf'.2)).congr (fun _ => rfl)
  | .forS _ i u t _ _ b, hf =>
    have hf' := inF_for hf
    (((Kids.inner_complete i hf'.1.1.1).append ((Kids.inner_complete u hf'.1.1.2).append (Kids.inner_complete t hf'.1.2))).append
      (Stmt.inner_complete b hf'.2)).congr (fun p => by simp [Stmt.inner, Bool.or_assoc])
  | .forInOf _ l r b, hf =>
    have hf' := inF_forIn hf
    (((Kids.inner_complete l hf'.1.1).append (Kids.inner_complete r hf'.1.2)).append (Stmt.inner_complete b hf'.2)).congr
      (fun _ => rfl)
  | .switchS _ d cs, hf =>
    have hf' := inF_switch hf
    ((Kids.inner_complete d hf'.1).append (Cases.inner_complete cs hf'.2)).congr (fun _ => rfl)
  | .tryS _ _ b hh _ ck hfi _ f, hf =>
    have hf' : (((b.inF = true ∧ ck.okFn = true) ∧ f.inF = true) ∧ (hh = true ∨ ck.isNil = true)) ∧ (hfi = true ∨ f.isNil = true) := by
      simpa [Stmt.inF] using hf
    ((Stmts.inner_complete b hf'.1.1.1.1).append ((Kids.inner_complete_catch ck hf'.1.1.1.2).append
      (Stmts.inner_complete f hf'.1.1.2))).congr (fun p => by simp [Stmt.inner, Bool.or_assoc])
  | .labeled _ _ b, hf => (Stmt.inner_complete b (by simpa [Stmt.inF] using hf)).congr (fun _ => rfl)
  | .brk _ _, _ => InnerFrom.nil (fun _ => rfl)
  | .cont _ _, _ => InnerFrom.nil (fun _ => rfl)
  | .ret _ a, hf => (Kids.inner_complete a (inF_ret hf)).congr (fun _ => rfl)
  | .throw _ a, hf => (Kids.inner_complete a (inF_throw hf)).congr (fun _ => rfl)
theorem Stmts.inner_complete : ∀ (l : Stmts), l.inF = true → InnerFrom l.getters l.inner
  | .nil, _ => InnerFrom.nil (fun _ => rfl)
  | .cons s r, hf =>
    have hf' : s.inF = true ∧ r.inF = true := by simpa [Stmts.inF] using hf
    ((Stmt.inner_complete s hf'.1).append (Stmts.inner_complete r hf'.2)).congr (fun _ => rfl)
theorem Kid.inner_complete : ∀ (k : Kid), k.okF = true → InnerFrom k.getters k.inner
  | .expr _ ks, hf => (Kids.inner_complete ks (by simpa [Kid.okF] using hf)).congr (fun _ => rfl)
  | .fnScope q ks, hf => (Kids.inner_complete_fn q ks (by simpa [Kid.okF] using hf)).congr (fun _ => rfl)
  | .block _ b, hf => (Stmts.inner_complete b (by simpa [Kid.okF] using hf)).congr (fun _ => rfl)
  | .stmt s, hf => (Stmt.inner_complete s (by simpa [Kid.okF] using hf)).congr (fun _ => rfl)
theorem Kids.inner_complete : ∀ (ks : Kids), ks.okF = true → InnerFrom ks.getters ks.inner
  | .nil, _ => InnerFrom.nil (fun _ => rfl)
  | .cons k r, hf =>
    have hf' : k.okF = true ∧ r.okF = true := by simpa [Kids.okF] using hf
    ((Kid.inner_complete k hf'.1).append (Kids.inner_complete r hf'.2)).congr (fun _ => rfl)
/-- the kids of a function scope at `q`: its own body block, and the functions nested in parameters and body -/
theorem Kids.inner_complete_fn (q : Nat) : ∀ (ks : Kids), ks.okFn = true →
    InnerFrom (ks.fnBodies q ++ ks.getters) (fun p => ks.entryReach p || ks.flowReach p || ks.inner p)
  | .nil, _ => InnerFrom.nil (fun _ => rfl)
  | .cons (.block b body) .nil, hf => by
    have hf' : body.inF = true := by simpa [Kids.okFn, Kids.isNil] using hf
    intro p hp
    simp only [Kids.entryReach, Kids.flowReach, Kid.flowReach, Kids.inner, Kid.inner, Bool.or_false, Bool.or_eq_true] at hp
    rcases hp with (hp | hp) | hp
    · exact ⟨⟨q, b, body⟩, by simp [Kids.fnBodies], hf', by simpa [Getter.reach] using hp⟩
    · exact ⟨⟨q, b, body⟩, by simp [Kids.fnBodies], hf', by simpa [Getter.reach] using hp⟩
    · obtain ⟨g, hg, hr⟩ := Stmts.inner_complete body hf' p hp
      exact ⟨g, by simp [Kids.getters, Kid.getters, hg], hr⟩
  | .cons (.block _ _) (.cons _ _), hf => by simp [Kids.okFn, Kids.isNil] at hf
  | .cons (.expr e ks') r, hf => by
    have hf' := okFn_expr hf
    have hkn : (Kid.expr e ks').compl.n = true := by
      rw [Kid.compl_pure (.expr e ks') (by simpa [Kid.pure] using hf'.1.2)]
    have h1 := Kids.inner_complete ks' hf'.1.1
    have h2 := Kids.inner_complete_fn q r hf'.2
    refine ((h1.append h2).mono ?_).congr ?_
    · intro g hg; simp only [Kids.fnBodies, Kids.getters, Kid.getters, List.mem_append] at hg ⊢
      rcases hg with h | h | h
      · exact Or.inr (Or.inl h)
      · exact Or.inl h
      · exact Or.inr (Or.inr h)
    · intro p
      simp only [Kids.entryReach, Kids.flowReach, Kid.flowReach, Kids.flowReach_pure ks' p hf'.1.2, hkn, Kids.inner, Kid.inner,
        Bool.false_or, Bool.true_and]
      cases ks'.inner p <;> cases r.entryReach p <;> cases r.flowReach p <;> cases r.inner p <;> rfl
  | .cons (.fnScope q' ks') r, hf => by
    have hf' : ks'.okFn = true ∧ r.okFn = true := by simpa [Kids.okFn] using hf
    have h1 := Kids.inner_complete_fn q' ks' hf'.1
    have h2 := Kids.inner_complete_fn q r hf'.2
    refine ((h1.append h2).mono ?_).congr ?_
    · intro g hg; simp only [Kids.fnBodies, Kids.getters, Kid.getters, List.mem_append] at hg ⊢
      rcases hg with (h | h) | h | h
      · exact Or.inr (Or.inl (Or.inl h))
      · exact Or.inr (Or.inl (Or.inr h))
      · exact Or.inl h
      · exact Or.inr (Or.inr h)
    · intro p
      simp only [Kids.entryReach, Kids.flowReach, Kid.flowReach, Kids.inner, Kid.inner, Bool.false_or,
        show (Kid.fnScope q' ks').compl.n = true by simp [Kid.compl], Bool.true_and]
      cases ks'.entryReach p <;> cases ks'.flowReach p <;> cases ks'.inner p <;> cases r.entryReach p <;>
        cases r.flowReach p <;> cases r.inner p <;> rfl
  | .cons (.stmt _) _, hf => by simp [Kids.okFn] at hf
/-- the kids of a catch clause (same shape; the body block is not a function entry) -/
theorem Kids.inner_complete_catch : ∀ (ks : Kids), ks.okFn = true → InnerFrom ks.getters ks.inner
  | .nil, _ => InnerFrom.nil (fun _ => rfl)
  | .cons (.block b body) .nil, hf => by
    have hf' : body.inF = true := by simpa [Kids.okFn, Kids.isNil] using hf
    refine ((Stmts.inner_complete body hf').mono ?_).congr ?_
    · intro g hg; simp [Kids.getters, Kid.getters, hg]
    · intro p; simp [Kids.inner, Kid.inner]
  | .cons (.block _ _) (.cons _ _), hf => by simp [Kids.okFn, Kids.isNil] at hf
  | .cons (.expr e ks') r, hf => by
    have hf' := okFn_expr hf
    exact ((Kids.inner_complete ks' hf'.1.1).append (Kids.inner_complete_catch r hf'.2)).congr (fun _ => rfl)
  | .cons (.fnScope q' ks') r, hf => by
    have hf' : ks'.okFn = true ∧ r.okFn = true := by simpa [Kids.okFn] using hf
    exact ((Kids.inner_complete_fn q' ks' hf'.1).append (Kids.inner_complete_catch r hf'.2)).congr (fun _ => rfl)
  | .cons (.stmt _) _, hf => by simp [Kids.okFn] at hf
theorem Cases.inner_complete : ∀ (cs : Cases), cs.inF = true → InnerFrom cs.getters cs.inner
  | .nil, _ => InnerFrom.nil (fun _ => rfl)
  | .cons _ _ t b r, hf =>
    have hf' := inF_case hf
    ((Kids.inner_complete t hf'.1.1).append ((Stmts.inner_complete b hf'.1.2).append (Cases.inner_complete r hf'.2))).congr
      (fun p => by simp [Cases.inner, Bool.or_assoc])
end

theorem itemsInner_complete : ∀ (items : List Item), itemsInF items = true → InnerFrom (itemsGetters items) (itemsInner items)
  | [], _ => InnerFrom.nil (fun _ => rfl)
  | .stmt s :: r, hf =>
    have hf' : s.inF = true ∧ itemsInF r = true := by simpa [itemsInF, Item.inF] using hf
    ((Stmt.inner_complete s hf'.1).append (itemsInner_complete r hf'.2)).congr (fun _ => rfl)
  | .decl k :: r, hf =>
    have hf' : k.okF = true ∧ itemsInF r = true := by simpa [itemsInF, Item.inF] using hf
    ((Kids.inner_complete k hf'.1).append (itemsInner_complete r hf'.2)).congr (fun _ => rfl)

theorem itemsReach_complete : ∀ (items : List Item) (p : Nat), itemsReach items p = true → ReachesItems items p
  | [], p, h => by simp [itemsReach] at h
  | .stmt s :: r, p, h => by
    simp only [itemsReach, Bool.or_eq_true, Bool.and_eq_true] at h
    rcases h with h | ⟨hn, h⟩
    · exact .here (Stmt.reach_complete s p h)
    · exact .next (Stmt.complete s [] .normal hn) (itemsReach_complete r p h)
  | .decl k :: r, p, h => by
    simp only [itemsReach, Bool.or_eq_true, Bool.and_eq_true] at h
    rcases h with h | ⟨hn, h⟩
    · exact .decl (Kids.flowReach_complete k p h)
    · exact .skipDecl (Kids.complete k .normal hn) (itemsReach_complete r p h)

/-- **completeness of `Program.reachable`** on the fragment (the fragment is only needed for the entries of functions:
parameters are pure there) -/
theorem Program.Reaches.complete (prog : Program) (hf : itemsInF prog.items = true) (p : Nat)
    (h : prog.reachable p = true) : prog.Reaches p := by
  unfold Program.reachable at h
  rcases (Bool.or_eq_true _ _).mp h with h | h
  · exact Or.inl (itemsReach_complete prog.items p h)
  · obtain ⟨g, hg, _, hr⟩ := itemsInner_complete prog.items hf p h
    refine Or.inr ⟨g, hg, ?_⟩
    simp only [Getter.reach, Bool.or_eq_true, beq_iff_eq] at hr
    exact hr.imp id (fun h => Stmts.reach_complete g.body p h)

end DL.CF
