import DL.Lemmas.CFSound5b
import DL.Lemmas.CFKids2
import DL.Lemmas.CFLabel
import DL.Lemmas.CFSwitch4
import DL.Lemmas.CFTry6
import DL.Lemmas.CFKids3

/-! Soundness invariant: the mutual induction over statements, statement lists and expressions with nested functions. -/
namespace DL.CF

theorem PostL.nil (live : Bool) (a : A) (hpre : Pre live [] a) :
    PostL live [] [] Compl.normal (fun _ => false) (fun _ => false) a a :=
  ⟨fun h => by simp [hpre.hs h], by simp, by simp, id, id, by simp, fun _ h _ => absurd h (by simp),
    fun _ h _ => absurd h (by simp), fun _ _ => rfl, id, by simp⟩

theorem stmtsCons_ok (live : Bool) (s : Stmt) (r : Stmts) (a : A) (h : Pre live (Stmts.cons s r).positions a)
    (ihs : ∀ a0, Pre live s.positions a0 → PostS live [] s a0 (visitStmt s a0))
    (ihr : ∀ a0, Pre (live && (s.compl []).n) r.positions a0 →
      PostL (live && (s.compl []).n) r.upos r.positions r.compl r.reach r.inner a0 (visitStmts r a0)) :
    PostL live (Stmts.cons s r).upos (Stmts.cons s r).positions (Stmts.cons s r).compl (Stmts.cons s r).reach
      (Stmts.cons s r).inner a (visitStmts (.cons s r) a) := by
  have hnd : (s.positions ++ r.positions).Nodup := h.nodup
  have hnd' := List.nodup_append.mp hnd
  have hdisj : ∀ p, p ∈ s.positions → p ∈ r.positions → False := fun p h1 h2 => hnd'.2.2 p h1 p h2 rfl
  have h1 := sob_ok live [] s a _ (ihs a (h.sub (fun p hp => List.mem_append.mpr (Or.inl hp)) hnd'.1))
  have hpre2 : Pre (live && (s.compl []).n) r.positions (sobTail s (visitStmt s a)) := by
    refine ⟨h1.p1, ?_, hnd'.2.1⟩
    intro p hp
    rw [endAt_eq_of_info_eq (h1.frame p (fun hps => hdisj p hps hp))]
    exact h.fresh p (List.mem_append.mpr (Or.inr hp))
  have h2 := ihr _ hpre2
  simp only [visitStmts, Stmts.positions, Stmts.upos, Stmts.compl]
  have := seq_ok live s.upos r.upos s.positions r.positions (s.compl []) r.compl s.reach r.reach s.inner r.inner a _ _
    h1.toPostL h2 hdisj (Stmt.upos_sub s) (Stmts.upos_sub r)
    (fun p hp => s.reach_false p hp) (fun p hp => r.reach_false p hp) (fun p hp => s.inner_false p hp) (fun p hp => r.inner_false p hp)
  refine ⟨this.p1, this.p2, this.p2c, this.monoB, this.monoC, this.p2l, ?_, ?_, this.frame, this.monoT, this.pT⟩
  · intro p hp hu
    have := this.p3 p hp hu
    simpa [Stmts.reach] using this
  · intro p hp hu
    have := this.p3i p hp hu
    simpa [Stmts.inner] using this

theorem kidsNilL (live : Bool) (a : A) (hpre : Pre live Kids.nil.positions a) : KidsL live .nil a (visitKids .nil a) := by
  have := PostL.nil live a (by simpa [Kids.positions] using hpre)
  simp only [visitKids]
  exact this.conv' (fun _ h => by simpa [Kids.upos] using h) (fun _ h => by simpa using h)
    (by simp [Kids.compl]) (by simp [Kids.compl]) (by simp [Kids.compl]) (by simp [Kids.compl, Compl.hasCl])
    (by simp [Kids.compl]) (fun _ _ => rfl) (fun _ _ => rfl)


theorem or_false_imp {tt : Bool} {P : Prop} (h : tt = false ∨ P) : tt = true → P := by
  intro ht; rcases h with h | h
  · rw [ht] at h; cases h
  · exact h

mutual
theorem visitStmt_ok : ∀ (s : Stmt) (ls : List Id) (live : Bool) (a : A), s.inF = true → Pre live s.positions a →
    PostS live ls s a (visitStmt s a)
  | .simple p t kids, ls, live, a, hf, h =>
    have hf' : kids.okF = true := by simpa [Stmt.inF] using hf
    simple_ok live ls p t kids a h (fun x hx => visitKids_okL kids live x hf' hx)
  | .block p b, ls, live, a, hf, h =>
    have hf' : b.inF = true := by simpa [Stmt.inF] using hf
    block_ok live ls p b a h (fun a0 h0 => visitStmts_ok b live a0 hf' h0)
  | .ifS p t c none, ls, live, a, hf, h =>
    have hf' : (t.okF = true ∧ t.compl.plain = true) ∧ c.inF = true := by simpa [Stmt.inF] using hf
    if_none_ok live ls p t c a hf'.1.2 h (fun x hx => visitKids_okL t live x hf'.1.1 hx)
      (fun a0 h0 => visitStmt_ok c [] _ a0 hf'.2 h0)
  | .ifS p t c (some al), ls, live, a, hf, h =>
    have hf' : ((t.okF = true ∧ t.compl.plain = true) ∧ c.inF = true) ∧ al.inF = true := by simpa [Stmt.inF] using hf
    if_some_ok live ls p t c al a hf'.1.1.2 h (fun x hx => visitKids_okL t live x hf'.1.1.1 hx)
      (fun a0 h0 => visitStmt_ok c [] _ a0 hf'.1.2 h0) (fun a0 h0 => visitStmt_ok al [] _ a0 hf'.2 h0)
  | .whileS p t tt b, ls, live, a, hf, h =>
    have hf' : ((t.okF = true ∧ t.compl.plain = true) ∧ (tt = false ∨ t.pure = true)) ∧ b.inF = true := by
      simpa [Stmt.inF] using hf
    while_ok live ls p t tt b a hf'.1.1.2 (or_false_imp hf'.1.2) h (fun l x hx => visitKids_okL t l x hf'.1.1.1 hx)
      (fun a0 h0 => visitStmt_ok b [] live a0 hf'.2 h0)
  | .doWhileS p b t tt, ls, live, a, hf, h =>
    have hf' : (t.okF = true ∧ t.pure = true) ∧ b.inF = true := by simpa [Stmt.inF] using hf
    doWhile_ok live ls p b t tt a hf'.1.2 h (fun x hx => visitKids_ok t x hf'.1.1 hf'.1.2 hx)
      (fun a0 h0 => visitStmt_ok b [] live a0 hf'.2 h0)
  | .forS p i u t ht tt b, ls, live, a, hf, h =>
    have hf' : ((((i.okF = true ∧ i.compl.plain = true) ∧ (u.okF = true ∧ u.pure = true)) ∧
        ((t.okF = true ∧ t.compl.plain = true) ∧ (tt = false ∨ t.pure = true))) ∧ b.inF = true) := by
      simpa [Stmt.inF] using hf
    for_ok live ls p i u t ht tt b a hf'.1.1.1.2 hf'.1.1.2.2 hf'.1.2.1.2 (or_false_imp hf'.1.2.2) h
      (fun l x hx => visitKids_okL i l x hf'.1.1.1.1 hx) (fun l x hx => visitKids_okL u l x hf'.1.1.2.1 hx)
      (fun l x hx => visitKids_okL t l x hf'.1.2.1.1 hx) (fun l a0 h0 => visitStmt_ok b [] l a0 hf'.2 h0)
  | .forInOf p l r b, ls, live, a, hf, h =>
    have hf' : ((l.okF = true ∧ l.pure = true) ∧ (r.okF = true ∧ r.compl.plain = true)) ∧ b.inF = true := by
      simpa [Stmt.inF] using hf
    forInOf_ok live ls p l r b a hf'.1.1.2 hf'.1.2.2 h (fun lv x hx => visitKids_okL l lv x hf'.1.1.1 hx)
      (fun lv x hx => visitKids_okL r lv x hf'.1.2.1 hx) (fun lv a0 h0 => visitStmt_ok b [] lv a0 hf'.2 h0)
  | .labeled p l b, ls, live, a, hf, h =>
    have hf' : b.inF = true := by simpa [Stmt.inF] using hf
    labeled_ok live ls p l b a h (fun a0 h0 => visitStmt_ok b (l :: ls) live a0 hf' h0)
  | .brk p l, ls, live, a, _, h => brk_ok live ls l p a h
  | .cont p l, ls, live, a, _, h => cont_ok live ls l p a h
  | .ret p arg, ls, live, a, hf, h =>
    have hf' : arg.okF = true ∧ arg.compl.plain = true := by simpa [Stmt.inF] using hf
    ret_ok live ls p arg a hf'.2 h (fun x hx => visitKids_okL arg live x hf'.1 hx)
  | .throw p arg, ls, live, a, hf, h =>
    have hf' : arg.okF = true ∧ arg.compl.plain = true := by simpa [Stmt.inF] using hf
    throw_ok live ls p arg a hf'.2 h (fun x hx => visitKids_okL arg live x hf'.1 hx)
  | .switchS p d cs, ls, live, a, hf, h =>
    have hf' : (d.okF = true ∧ d.pure = true) ∧ cs.inF = true := by simpa [Stmt.inF] using hf
    switch_ok live ls p d cs a hf'.1.2 h (fun x hx => visitKids_ok d x hf'.1.1 hf'.1.2 hx)
      (fun a0 h0 => visitCases_ok cs live a0 hf'.2 h0)
  | .tryS p bp b hh cp ck hf fp f, ls, live, a, hfr, h =>
    have hf' : (((b.inF = true ∧ ck.okFn = true) ∧ f.inF = true) ∧ (hh = true ∨ ck.isNil = true)) ∧ (hf = true ∨ f.isNil = true) := by
      simpa [Stmt.inF] using hfr
    try_ok live ls p bp b hh cp ck hf fp f a
      (hf'.1.2.imp id (fun h => by cases ck <;> simp_all [Kids.isNil]))
      (hf'.2.imp id (fun h => by cases f <;> simp_all [Stmts.isNil])) h
      (fun a0 h0 => visitStmts_ok b live a0 hf'.1.1.1.1 h0)
      (fun c hc => visitKids_catch ck _ c hf'.1.1.1.2 hc)
      (fun a0 h0 => visitStmts_ok f _ a0 hf'.1.1.2 h0)
theorem visitStmts_ok : ∀ (l : Stmts) (live : Bool) (a : A), l.inF = true → Pre live l.positions a →
    PostL live l.upos l.positions l.compl l.reach l.inner a (visitStmts l a)
  | .nil, live, a, _, h => by
    simp only [visitStmts, Stmts.positions, Stmts.upos, Stmts.compl]
    exact PostL.nil live a h
  | .cons s r, live, a, hf, h =>
    have hf' : s.inF = true ∧ r.inF = true := by simpa [Stmts.inF] using hf
    stmtsCons_ok live s r a h (fun a0 h0 => visitStmt_ok s [] live a0 hf'.1 h0)
      (fun a0 h0 => visitStmts_ok r (live && (s.compl []).n) a0 hf'.2 h0)
theorem visitCases_ok : ∀ (cs : Cases) (live : Bool) (a : A), cs.inF = true → Pre live cs.positions a →
    PostC live cs a (visitCases cs a)
  | .nil, live, a, _, _ => casesNil_ok live a
  | .cons p d t b r, live, a, hf, h =>
    have hf' : ((t.okF = true ∧ t.pure = true) ∧ b.inF = true) ∧ r.inF = true := by simpa [Cases.inF] using hf
    casesCons_ok live p d t b r a hf'.1.1.2 h (fun x hx => visitKids_ok t x hf'.1.1.1 hf'.1.1.2 hx)
      (fun a0 h0 => visitStmts_ok b live a0 hf'.1.2 h0) (fun a0 h0 => visitCases_ok r live a0 hf'.2 h0)
/-- pure expressions (no statement nested directly in them): the scope's end and `found_break` are untouched -/
theorem visitKid_ok : ∀ (k : Kid) (a : A), k.okF = true → k.pure = true → PreK k.positions a →
    PostK k.upos k.positions k.inner k.mayThrow a (visitKid k a)
  | .expr e ks, a, hf, hp, h =>
    expr_ok e ks a (visitKids_ok ks a (by simpa [Kid.okF] using hf) (by simpa [Kid.pure] using hp) h)
  | .fnScope p ks, a, hf, _, h =>
    have hf' : ks.okFn = true := by simpa [Kid.okF] using hf
    fnScope_ok p ks a h (fun x hx he => visitKids_fn ks x hf' hx he)
  | .block _ _, _, _, hp, _ => by simp [Kid.pure] at hp
  | .stmt _, _, _, hp, _ => by simp [Kid.pure] at hp
theorem visitKids_ok : ∀ (ks : Kids) (a : A), ks.okF = true → ks.pure = true → PreK ks.positions a →
    PostK ks.upos ks.positions ks.inner ks.mayThrow a (visitKids ks a)
  | .nil, a, _, _, _ => PostK.nil a
  | .cons k r, a, hf, hp, h =>
    have hf' : k.okF = true ∧ r.okF = true := by simpa [Kids.okF] using hf
    have hp' : k.pure = true ∧ r.pure = true := by simpa [Kids.pure] using hp
    kidsCons_ok k r a h (fun x hx => visitKid_ok k x hf'.1 hp'.1 hx) (fun x hx => visitKids_ok r x hf'.2 hp'.2 hx)
theorem visitKids_fn : ∀ (ks : Kids) (a : A), ks.okFn = true → PreK ks.positions a → a.sc.end_ = none →
    PostI ks.upos ks.positions ks.fnReach a (visitKids ks a)
  | .nil, a, _, _, _ => okFn_nil a
  | .cons (.block q body) .nil, a, hf, h, he =>
    have hf' : body.inF = true := by simpa [Kids.okFn, Kids.isNil] using hf
    okFn_block q body a h he (fun a0 h0 => visitStmts_ok body true a0 hf' h0)
  | .cons (.block q body) (.cons _ _), a, hf, _, _ => by simp [Kids.okFn, Kids.isNil] at hf
  | .cons (.expr e ks) r, a, hf, h, he =>
    have hf' : (ks.okF = true ∧ ks.pure = true) ∧ r.okFn = true := by simpa [Kids.okFn] using hf
    okFn_cons (.expr e ks) r a h he (fun _ => rfl) (fun q => Kid.flowReach_pure _ q (by simpa [Kid.pure] using hf'.1.2))
      (fun x hx => visitKid_ok (.expr e ks) x (by simpa [Kid.okF] using hf'.1.1) (by simpa [Kid.pure] using hf'.1.2) hx)
      (fun x hx he' => visitKids_fn r x hf'.2 hx he')
  | .cons (.fnScope p ks) r, a, hf, h, he =>
    have hf' : ks.okFn = true ∧ r.okFn = true := by simpa [Kids.okFn] using hf
    okFn_cons (.fnScope p ks) r a h he (fun _ => rfl) (fun _ => rfl)
      (fun x hx => visitKid_ok (.fnScope p ks) x (by simpa [Kid.okF] using hf'.1) rfl hx)
      (fun x hx he' => visitKids_fn r x hf'.2 hx he')
  | .cons (.stmt _) _, _, hf, _, _ => by simp [Kids.okFn] at hf
theorem visitKids_catch : ∀ (ks : Kids) (live : Bool) (a : A), ks.okFn = true → Pre live ks.positions a →
    PostL live ks.upos ks.positions ks.catchCompl ks.catchReach ks.inner a (visitKids ks a)
  | .nil, live, a, _, h => catchNil_ok live a h
  | .cons (.block q body) .nil, live, a, hf, h =>
    have hf' : body.inF = true := by simpa [Kids.okFn, Kids.isNil] using hf
    catchBlock_ok live q body a h (fun a0 h0 => visitStmts_ok body live a0 hf' h0)
  | .cons (.block q body) (.cons _ _), _, _, hf, _ => by simp [Kids.okFn, Kids.isNil] at hf
  | .cons (.expr e ks) r, live, a, hf, h =>
    have hf' : (ks.okF = true ∧ ks.pure = true) ∧ r.okFn = true := by simpa [Kids.okFn] using hf
    catchCons_ok live (.expr e ks) r a h (by simp [Kids.catchCompl]) (fun _ => by simp [Kids.catchReach])
      (fun x hx => visitKid_ok (.expr e ks) x (by simpa [Kid.okF] using hf'.1.1) (by simpa [Kid.pure] using hf'.1.2) hx)
      (fun x hx => visitKids_catch r live x hf'.2 hx)
  | .cons (.fnScope p ks) r, live, a, hf, h =>
    have hf' : ks.okFn = true ∧ r.okFn = true := by simpa [Kids.okFn] using hf
    catchCons_ok live (.fnScope p ks) r a h (by simp [Kids.catchCompl]) (fun _ => by simp [Kids.catchReach])
      (fun x hx => visitKid_ok (.fnScope p ks) x (by simpa [Kid.okF] using hf'.1) rfl hx)
      (fun x hx => visitKids_catch r live x hf'.2 hx)
  | .cons (.stmt _) _, _, _, hf, _ => by simp [Kids.okFn] at hf
/-- any expression tree of the fragment, possibly with statements nested directly in it: a piece of the enclosing flow -/
theorem visitKid_okL : ∀ (k : Kid) (live : Bool) (a : A), k.okF = true → Pre live k.positions a →
    PostL live k.upos k.positions k.compl k.flowReach k.inner a (visitKid k a)
  | .expr e ks, live, a, hf, h =>
    exprL live e ks a (visitKids_okL ks live a (by simpa [Kid.okF] using hf) (by simpa [Kid.positions] using h))
  | .fnScope p ks, live, a, hf, h =>
    have hf' : ks.okFn = true := by simpa [Kid.okF] using hf
    fnScopeL live p ks a h.hs (fnScope_ok p ks a ⟨h.fresh, h.nodup⟩ (fun x hx he => visitKids_fn ks x hf' hx he))
  | .block q body, live, a, hf, h =>
    have hf' : body.inF = true := by simpa [Kid.okF] using hf
    blockKidL live q body a (by simpa [Kid.positions] using h) (fun a0 h0 => visitStmts_ok body live a0 hf' h0)
  | .stmt s, live, a, hf, h =>
    have hf' : s.inF = true := by simpa [Kid.okF] using hf
    stmtKidL live s a (visitStmt_ok s [] live a hf' (by simpa [Kid.positions] using h))
theorem visitKids_okL : ∀ (ks : Kids) (live : Bool) (a : A), ks.okF = true → Pre live ks.positions a →
    KidsL live ks a (visitKids ks a)
  | .nil, live, a, _, h => kidsNilL live a h
  | .cons k r, live, a, hf, h =>
    have hf' : k.okF = true ∧ r.okF = true := by simpa [Kids.okF] using hf
    kidsConsL live k r a h (fun l x hx => visitKid_okL k l x hf'.1 hx) (fun l x hx => visitKids_okL r l x hf'.2 hx)
end

end DL.CF
