import DL.Lemmas.CFSound5

/-! Soundness invariant: the mutual induction over statements and statement lists, and whole programs. -/
namespace DL.CF

theorem PostL.nil (live : Bool) (a : A) (hpre : Pre live [] a) :
    PostL live [] Compl.normal (fun _ => false) a a :=
  ⟨fun h => by simp [hpre.hs h], by simp, by simp, id, id, hpre.fb, fun _ h _ => absurd h (by simp), fun _ _ => rfl⟩

mutual
theorem visitStmt_ok : ∀ (s : Stmt) (live : Bool) (a : A), s.inF = true → Pre live s.positions a →
    PostS live s a (visitStmt s a)
  | .simple p t kids, live, a, hf, h => simple_ok live p t kids a (by simpa [Stmt.inF] using hf) h
  | .block p b, live, a, hf, h =>
    have hf' : b.inF = true := by simpa [Stmt.inF] using hf
    block_ok live p b a h (fun a0 h0 => visitStmts_ok b live a0 hf' h0) (fun q hq => b.reach_false q hf' hq)
  | .ifS p t c none, live, a, hf, h =>
    have hf' : t.flat = true ∧ c.inF = true := by simpa [Stmt.inF] using hf
    if_none_ok live p t c a hf'.1 h (fun a0 h0 => visitStmt_ok c live a0 hf'.2 h0)
  | .ifS p t c (some al), live, a, hf, h =>
    have hf' : (t.flat = true ∧ c.inF = true) ∧ al.inF = true := by simpa [Stmt.inF] using hf
    if_some_ok live p t c al a hf'.1.1 hf'.1.2 hf'.2 h (fun a0 h0 => visitStmt_ok c live a0 hf'.1.2 h0)
      (fun a0 h0 => visitStmt_ok al live a0 hf'.2 h0)
  | .whileS p t tt b, live, a, hf, h =>
    have hf' : t.flat = true ∧ b.inF = true := by simpa [Stmt.inF] using hf
    while_ok live p t tt b a hf'.1 h (fun a0 h0 => visitStmt_ok b live a0 hf'.2 h0)
  | .doWhileS p b t tt, live, a, hf, h =>
    have hf' : t.flat = true ∧ b.inF = true := by simpa [Stmt.inF] using hf
    doWhile_ok live p b t tt a hf'.1 h (fun a0 h0 => visitStmt_ok b live a0 hf'.2 h0)
  | .forS p i u t ht tt b, live, a, hf, h =>
    have hf' : ((i.flat = true ∧ u.flat = true) ∧ t.flat = true) ∧ b.inF = true := by simpa [Stmt.inF] using hf
    for_ok live p i u t ht tt b a hf'.1.1.1 hf'.1.1.2 hf'.1.2 h (fun a0 h0 => visitStmt_ok b live a0 hf'.2 h0)
  | .forInOf p l r b, live, a, hf, h =>
    have hf' : (l.flat = true ∧ r.flat = true) ∧ b.inF = true := by simpa [Stmt.inF] using hf
    forInOf_ok live p l r b a hf'.1.1 hf'.1.2 h (fun a0 h0 => visitStmt_ok b live a0 hf'.2 h0)
  | .brk p none, live, a, _, h => brk_ok live p a h
  | .cont p none, live, a, _, h => cont_ok live p a h
  | .ret p arg, live, a, hf, h => ret_ok live p arg a (by simpa [Stmt.inF] using hf) h
  | .throw p arg, live, a, hf, h => throw_ok live p arg a (by simpa [Stmt.inF] using hf) h
  | .brk _ (some _), _, _, hf, _ => by simp [Stmt.inF] at hf
  | .cont _ (some _), _, _, hf, _ => by simp [Stmt.inF] at hf
  | .switchS .., _, _, hf, _ => by simp [Stmt.inF] at hf
  | .tryS .., _, _, hf, _ => by simp [Stmt.inF] at hf
  | .labeled .., _, _, hf, _ => by simp [Stmt.inF] at hf
theorem visitStmts_ok : ∀ (l : Stmts) (live : Bool) (a : A), l.inF = true → Pre live l.positions a →
    PostL live l.positions l.compl l.reach a (visitStmts l a)
  | .nil, live, a, _, h => by
    simp only [visitStmts, Stmts.positions, Stmts.compl]
    exact PostL.nil live a h
  | .cons s r, live, a, hf, h => by
    have hf' : s.inF = true ∧ r.inF = true := by simpa [Stmts.inF] using hf
    have hnd : (s.positions ++ r.positions).Nodup := h.nodup
    have hnd' := List.nodup_append.mp hnd
    have hdisj : ∀ p, p ∈ s.positions → p ∈ r.positions → False := fun p h1 h2 => hnd'.2.2 p h1 p h2 rfl
    have h1 := sob_ok live s a _ (visitStmt_ok s live a hf'.1
      (h.sub (fun p hp => List.mem_append.mpr (Or.inl hp)) hnd'.1))
    have hpre2 : Pre (live && (s.compl []).n) r.positions (sobTail s (visitStmt s a)) := by
      refine ⟨h1.p1, ?_, hnd'.2.1, h1.fb⟩
      intro p hp
      rw [endAt_eq_of_info_eq (h1.frame p (fun hps => hdisj p hps hp))]
      exact h.fresh p (List.mem_append.mpr (Or.inr hp))
    have h2 := visitStmts_ok r (live && (s.compl []).n) _ hf'.2 hpre2
    simp only [visitStmts, Stmts.positions, Stmts.compl]
    have := seq_ok live s.positions r.positions (s.compl []) r.compl s.reach r.reach a _ _ h1.toPostL h2 hdisj
      (fun p hp => s.reach_false p hf'.1 hp) (fun p hp => r.reach_false p hf'.2 hp)
    refine ⟨this.p1, this.p2, this.p2c, this.monoB, this.monoC, this.fb, ?_, this.frame⟩
    intro p hp hu
    have := this.p3 p hp hu
    simpa [Stmts.reach] using this
end

end DL.CF
