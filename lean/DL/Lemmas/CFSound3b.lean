import DL.Lemmas.CFSound3

/-! Soundness invariant: `if` with `else`. -/
namespace DL.CF

theorem stmtEnd_stops' {de : Bool} {info : Info} {p : Nat} (h : stopsEnd (stmtEnd de info p) = true) :
    de = false ∧ stopsEnd (info.endAt p) = true := by
  cases de <;> simp_all [stmtEnd]

theorem stmtEnd_forced' {de : Bool} {info : Info} {p : Nat} (h : isForcedEnd (stmtEnd de info p) = true) :
    de = false ∧ isForcedEnd (info.endAt p) = true := by
  cases de <;> simp_all [stmtEnd]

theorem if_some_fields (ls : List Id) (p : Nat) (test : Kids) (c al : Stmt) (hpl : test.compl.plain = true) :
    let s := Stmt.compl ls (.ifS p test c (some al))
    s.n = (test.compl.n && ((c.compl []).n || (al.compl []).n)) ∧ s.b = (test.compl.n && ((c.compl []).b || (al.compl []).b)) ∧
    s.c = (test.compl.n && ((c.compl []).c || (al.compl []).c)) ∧
    s.hasCl = (test.compl.n && ((c.compl []).hasCl || (al.compl []).hasCl)) ∧
    s.t = (test.compl.t || (test.compl.n && ((c.compl []).t || (al.compl []).t))) := by
  simp [Stmt.compl, Compl.plain_b hpl, Compl.plain_c hpl, Compl.plain_hasCl hpl]

theorem if_some_ok (live : Bool) (ls : List Id) (p : Nat) (test : Kids) (c al : Stmt) (a : A)
    (hpl : test.compl.plain = true)
    (hpre : Pre live (p :: (test.positions ++ (c.positions ++ al.positions))) a)
    (ihk : ∀ x, Pre live test.positions x → KidsL live test x (visitKids test x))
    (ihc : ∀ a0, Pre (live && test.compl.n) c.positions a0 → PostS (live && test.compl.n) [] c a0 (visitStmt c a0))
    (iha : ∀ a0, Pre (live && test.compl.n) al.positions a0 → PostS (live && test.compl.n) [] al a0 (visitStmt al a0)) :
    PostS live ls (.ifS p test c (some al)) a (visitStmt (.ifS p test c (some al)) a) := by
  have hk := ihk _ (Prefix.pre hpre)
  have hv : visitStmt (.ifS p test c (some al)) a =
      (let a1 := visitKids test (flagA a p .other)
       let a2 := withChild .ifK c.pos (fun x => sobTail c (visitStmt c x)) a1
       let a3 := withChild .ifK al.pos (fun x => sobTail al (visitStmt al x)) a2
       ifJoin p (stmtEnd c.isDeclOrExpr a2.info c.pos) (stmtEnd al.isDeclOrExpr a3.info al.pos) a3) := by simp [visitStmt, flagA]
  rw [hv]
  simp only []
  generalize visitKids test (flagA a p .other) = a1 at hk ⊢
  have hx := Prefix.of hpre hk
  have hxs0 := hx.hs
  generalize hL : (live && test.compl.n) = L at hxs0 ihc iha
  have hxs : stopsEnd a1.sc.end_ = true → L = false := hxs0
  have hnd2 := List.nodup_append.mp hx.ndr
  have hdisj : ∀ q, q ∈ c.positions → q ∈ al.positions → False := fun q h1 h2 => hnd2.2.2 q h1 q h2 rfl
  have hpc : p ∉ c.positions := fun h => hx.pr (List.mem_append.mpr (Or.inl h))
  have hpa : p ∉ al.positions := fun h => hx.pr (List.mem_append.mpr (Or.inr h))
  have htc : ∀ q, q ∈ test.positions → q ∉ c.positions := fun q h h' => hx.disj q h (List.mem_append.mpr (Or.inl h'))
  have hta : ∀ q, q ∈ test.positions → q ∉ al.positions := fun q h h' => hx.disj q h (List.mem_append.mpr (Or.inr h'))
  -- first branch
  have hprec : Pre L c.positions (childA .ifK a1) :=
    childA_pre L .ifK _ a1 hxs (fun q hq => hx.hfresh q (List.mem_append.mpr (Or.inl hq))) hnd2.1
  have h1 := sob_ok L [] c _ _ (ihc _ hprec)
  generalize ha2 : withChild .ifK c.pos (fun x => sobTail c (visitStmt c x)) a1 = a2
  rw [withChild_if] at ha2
  obtain ⟨hi2, he2, hb2, hc2, hmb2, hmc2, hmt2, hpt2⟩ := ifChild L [] c a1 _ a2 h1 ha2.symm
  generalize sobTail c (visitStmt c (childA .ifK a1)) = c' at h1 hi2
  -- second branch
  have hprea : Pre L al.positions (childA .ifK a2) := by
    refine childA_pre L .ifK _ a2 (fun h => hxs (by rw [← he2]; exact h)) ?_ hnd2.2.1
    intro q hq
    rw [hi2, endAt_eq_of_info_eq (h1.frame q (fun hqc => hdisj q hqc hq))]
    exact hx.hfresh q (List.mem_append.mpr (Or.inr hq))
  have h2 := sob_ok L [] al _ _ (iha _ hprea)
  generalize ha3 : withChild .ifK al.pos (fun x => sobTail al (visitStmt al x)) a2 = a3
  rw [withChild_if] at ha3
  obtain ⟨hi3, he3, hb3, hc3, hmb3, hmc3, hmt3, hpt3⟩ := ifChild L [] al a2 _ a3 h2 ha3.symm
  generalize sobTail al (visitStmt al (childA .ifK a2)) = al' at h2 hi3
  have hcr : stopsEnd (stmtEnd c.isDeclOrExpr a2.info c.pos) = true → (L && (c.compl []).n) = false := by
    intro h; have h := stmtEnd_stops' h; rw [hi2] at h; exact h1.p4 h.1 h.2
  have har : stopsEnd (stmtEnd al.isDeclOrExpr a3.info al.pos) = true → (L && (al.compl []).n) = false := by
    intro h; have h := stmtEnd_stops' h; rw [hi3] at h; exact h2.p4 h.1 h.2
  obtain ⟨e, hje, hjs⟩ := ifJoin_eq p (stmtEnd c.isDeclOrExpr a2.info c.pos) (stmtEnd al.isDeclOrExpr a3.info al.pos) a3
  rw [hje]
  obtain ⟨fn, fb, fc, fl, ft⟩ := if_some_fields ls p test c al hpl
  have hstop : stopsEnd a3.sc.end_ = true ∨ stopsEnd (some e) = true →
      (L && ((c.compl []).n || (al.compl []).n)) = false := by
    rintro (h | h)
    · rw [he3, he2] at h; simp [hxs h]
    · have := hjs h
      have x := hcr this.1; have y := har this.2
      revert x y; cases L <;> cases (c.compl []).n <;> cases (al.compl []).n <;> simp
  -- the `unreachable` flag at the positions of the three parts
  have hur3 : ∀ q, a3.info.ur q = al'.info.ur q := fun q => by rw [hi3]
  have hurA : ∀ q, q ∉ al.positions → a3.info.ur q = c'.info.ur q := fun q hq => by
    rw [hi3, ur_eq_of_info_eq (h2.frame q hq)]; simp only [childA]; rw [hi2]
  have hurC : ∀ q, q ∉ al.positions → q ∉ c.positions → a3.info.ur q = a1.info.ur q := fun q hq hq' => by
    rw [hurA q hq, ur_eq_of_info_eq (h1.frame q hq')]; rfl
  refine ⟨⟨?_, ?_, ?_, ?_, ?_, ?_, ?_, ?_, ?_, ?_, ?_⟩, ?_⟩
  · intro hst
    rw [markAsEnd_stops] at hst
    rw [show (live && (Stmt.compl ls (.ifS p test c (some al))).n) = (L && ((c.compl []).n || (al.compl []).n)) by
      rw [if_some_fields ls p test c al hpl |>.1, ← Bool.and_assoc, hL]]
    apply hstop
    revert hst; cases stopsEnd a3.sc.end_ <;> simp
  · intro hh
    rw [markAsEnd_foundBreak]
    rw [(if_some_fields ls p test c al hpl).2.1, ← Bool.and_assoc, hL] at hh
    have : (L && (c.compl []).b) = true ∨ (L && (al.compl []).b) = true := by
      revert hh; cases L <;> cases (c.compl []).b <;> simp
    rcases this with h | h
    · exact hmb3 (hb2 h)
    · exact hb3 h
  · intro hh
    rw [markAsEnd_foundContinue]
    rw [(if_some_fields ls p test c al hpl).2.2.1, ← Bool.and_assoc, hL] at hh
    have : (L && (c.compl []).c) = true ∨ (L && (al.compl []).c) = true := by
      revert hh; cases L <;> cases (c.compl []).c <;> simp
    rcases this with h | h
    · exact hmc3 (hc2 (by rw [Bool.and_or_distrib_left, h]; rfl))
    · exact hc3 (by rw [Bool.and_or_distrib_left, h]; rfl)
  · intro hh; rw [markAsEnd_foundBreak]; exact hmb3 (hmb2 (hx.hb hh))
  · intro hh; rw [markAsEnd_foundContinue]; exact hmc3 (hmc2 (hx.hc hh))
  · intro hh
    rw [markAsEnd_foundContinue]
    rw [(if_some_fields ls p test c al hpl).2.2.2.1, ← Bool.and_assoc, hL] at hh
    have : (L && (c.compl []).hasCl) = true ∨ (L && (al.compl []).hasCl) = true := by
      revert hh; cases L <;> cases (c.compl []).hasCl <;> simp
    rcases this with h | h
    · exact hmc3 (hc2 (by rw [Bool.and_or_distrib_left, h]; simp))
    · exact hc3 (by rw [Bool.and_or_distrib_left, h]; simp)
  · intro q hq hu
    rw [markAsEnd_ur] at hu
    simp only [Stmt.upos, List.mem_cons, List.mem_append] at hq
    simp only [Stmt.reach, evalCompl_eq]
    rcases hq with rfl | hqt | hqc | hqa
    · have := hx.dead hpre _ (hurC q hpa hpc) hu
      simp [this]
    · have hqt' := Kids.upos_sub test q hqt
      have hne : q ≠ p := fun e => hx.pk (e ▸ hqt')
      rw [hurC q (hta q hqt') (htc q hqt')] at hu
      have := hk.p3 q hqt hu
      revert this; cases live <;> simp [hne, c.reach_false q (htc q hqt'), al.reach_false q (hta q hqt')]
    · have hqc' := Stmt.upos_sub c q hqc
      have hne : q ≠ p := fun e => hpc (e ▸ hqc')
      have hna : q ∉ al.positions := fun h => hdisj q hqc' h
      rw [hurA q hna] at hu
      have := h1.p3 q hqc hu
      rw [← hL] at this
      rw [al.reach_false q hna, Kids.flowReach_false test q (fun h => htc q h hqc')]
      revert this; cases live <;> cases test.compl.n <;> simp [hne]
    · have hqa' := Stmt.upos_sub al q hqa
      have hne : q ≠ p := fun e => hpa (e ▸ hqa')
      have hnc : q ∉ c.positions := fun h => hdisj q h hqa'
      rw [hur3] at hu
      have := h2.p3 q hqa hu
      rw [← hL] at this
      rw [c.reach_false q hnc, Kids.flowReach_false test q (fun h => hta q h hqa')]
      revert this; cases live <;> cases test.compl.n <;> simp [hne]
  · intro q hq hu
    rw [markAsEnd_ur] at hu
    simp only [Stmt.upos, List.mem_cons, List.mem_append] at hq
    simp only [Stmt.inner]
    rcases hq with rfl | hqt | hqc | hqa
    · simp [Kids.inner_false test q hx.pk, c.inner_false q hpc, al.inner_false q hpa]
    · have hqt' := Kids.upos_sub test q hqt
      rw [hurC q (hta q hqt') (htc q hqt')] at hu
      simp [hk.p3i q hqt hu, c.inner_false q (htc q hqt'), al.inner_false q (hta q hqt')]
    · have hqc' := Stmt.upos_sub c q hqc
      have hna : q ∉ al.positions := fun h => hdisj q hqc' h
      rw [hurA q hna] at hu
      simp [h1.p3i q hqc hu, al.inner_false q hna, Kids.inner_false test q (fun h => htc q h hqc')]
    · have hqa' := Stmt.upos_sub al q hqa
      have hnc : q ∉ c.positions := fun h => hdisj q h hqa'
      rw [hur3] at hu
      simp [h2.p3i q hqa hu, c.inner_false q hnc, Kids.inner_false test q (fun h => hta q h hqa')]
  · intro q hq
    simp only [Stmt.positions, List.mem_cons, List.mem_append, not_or] at hq
    rw [markAsEnd_info_other _ _ _ _ hq.1, hi3, h2.frame q hq.2.2.2]
    simp only [childA]
    rw [hi2, h1.frame q hq.2.2.1]
    simp only [childA]
    exact hx.hi q hq.1 hq.2.1
  · intro hh; rw [markAsEnd_mayThrow]; exact hmt3 (hmt2 (hx.hmt hh))
  · intro hh
    rw [markAsEnd_mayThrow]
    rw [ft] at hh
    cases hkt : (live && test.compl.t) with
    | true => exact hmt3 (hmt2 (hx.pT hkt))
    | false =>
      have hh' : (L && ((c.compl []).t || (al.compl []).t)) = true := by
        rw [← hL]; revert hh hkt; cases live <;> cases test.compl.t <;> cases test.compl.n <;> simp
      cases hct : (L && (c.compl []).t) with
      | true => exact hmt3 (hpt2 hct)
      | false =>
        apply hpt3
        revert hh' hct; cases L <;> cases (c.compl []).t <;> simp
  · intro _ hst
    simp only [Stmt.pos] at hst
    rw [show (live && (Stmt.compl ls (.ifS p test c (some al))).n) = (L && ((c.compl []).n || (al.compl []).n)) by
      rw [if_some_fields ls p test c al hpl |>.1, ← Bool.and_assoc, hL]]
    apply hstop
    exact markAsEnd_self_stops _ _ _ hst

end DL.CF
