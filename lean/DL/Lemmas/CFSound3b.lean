import DL.Lemmas.CFSound3

/-! Soundness invariant: `if` with `else`. -/
namespace DL.CF

theorem stmtEnd_stops' {de : Bool} {info : Info} {p : Nat} (h : stopsEnd (stmtEnd de info p) = true) :
    de = false ∧ stopsEnd (info.endAt p) = true := by
  cases de <;> simp_all [stmtEnd]

theorem stmtEnd_forced' {de : Bool} {info : Info} {p : Nat} (h : isForcedEnd (stmtEnd de info p) = true) :
    de = false ∧ isForcedEnd (info.endAt p) = true := by
  cases de <;> simp_all [stmtEnd]

theorem if_some_ok (live : Bool) (ls : List Id) (p : Nat) (test : Kids) (c al : Stmt) (a : A)
    (hpre : Pre live (p :: (test.positions ++ (c.positions ++ al.positions))) a)
    (ihk : ∀ x, PreK test.positions x → PostK test.upos test.positions test.inner test.mayThrow x (visitKids test x))
    (ihc : ∀ a0, Pre live c.positions a0 → PostS live [] c a0 (visitStmt c a0))
    (iha : ∀ a0, Pre live al.positions a0 → PostS live [] al a0 (visitStmt al a0)) :
    PostS live ls (.ifS p test c (some al)) a (visitStmt (.ifS p test c (some al)) a) := by
  have hk := ihk _ (Prefix.preK hpre)
  have hv : visitStmt (.ifS p test c (some al)) a =
      (let a1 := visitKids test (flagA a p .other)
       let a2 := withChild .ifK c.pos (fun x => sobTail c (visitStmt c x)) a1
       let a3 := withChild .ifK al.pos (fun x => sobTail al (visitStmt al x)) a2
       ifJoin p (stmtEnd c.isDeclOrExpr a2.info c.pos) (stmtEnd al.isDeclOrExpr a3.info al.pos) a3) := by simp [visitStmt, flagA]
  rw [hv]
  simp only []
  generalize visitKids test (flagA a p .other) = a1 at hk ⊢
  have hx := Prefix.of hpre hk
  have hnd2 := List.nodup_append.mp hx.ndr
  have hdisj : ∀ q, q ∈ c.positions → q ∈ al.positions → False := fun q h1 h2 => hnd2.2.2 q h1 q h2 rfl
  have hpc : p ∉ c.positions := fun h => hx.pr (List.mem_append.mpr (Or.inl h))
  have hpa : p ∉ al.positions := fun h => hx.pr (List.mem_append.mpr (Or.inr h))
  have htc : ∀ q, q ∈ test.positions → q ∉ c.positions := fun q h h' => hx.disj q h (List.mem_append.mpr (Or.inl h'))
  have hta : ∀ q, q ∈ test.positions → q ∉ al.positions := fun q h h' => hx.disj q h (List.mem_append.mpr (Or.inr h'))
  -- first branch
  have hprec : Pre live c.positions (childA .ifK a1) :=
    childA_pre live .ifK _ a1 hx.hs (fun q hq => hx.hfresh q (List.mem_append.mpr (Or.inl hq))) hnd2.1
  have h1 := sob_ok live [] c _ _ (ihc _ hprec)
  generalize ha2 : withChild .ifK c.pos (fun x => sobTail c (visitStmt c x)) a1 = a2
  rw [withChild_if] at ha2
  obtain ⟨hi2, he2, hb2, hc2, hmb2, hmc2, hmt2, hpt2⟩ := ifChild live [] c a1 _ a2 h1 ha2.symm
  generalize sobTail c (visitStmt c (childA .ifK a1)) = c' at h1 hi2
  -- second branch
  have hprea : Pre live al.positions (childA .ifK a2) := by
    refine childA_pre live .ifK _ a2 (fun h => hx.hs (by rw [← he2]; exact h)) ?_ hnd2.2.1
    intro q hq
    rw [hi2, endAt_eq_of_info_eq (h1.frame q (fun hqc => hdisj q hqc hq))]
    exact hx.hfresh q (List.mem_append.mpr (Or.inr hq))
  have h2 := sob_ok live [] al _ _ (iha _ hprea)
  generalize ha3 : withChild .ifK al.pos (fun x => sobTail al (visitStmt al x)) a2 = a3
  rw [withChild_if] at ha3
  obtain ⟨hi3, he3, hb3, hc3, hmb3, hmc3, hmt3, hpt3⟩ := ifChild live [] al a2 _ a3 h2 ha3.symm
  generalize sobTail al (visitStmt al (childA .ifK a2)) = al' at h2 hi3
  have hcr : stopsEnd (stmtEnd c.isDeclOrExpr a2.info c.pos) = true → (live && (c.compl []).n) = false := by
    intro h; have h := stmtEnd_stops' h; rw [hi2] at h; exact h1.p4 h.1 h.2
  have har : stopsEnd (stmtEnd al.isDeclOrExpr a3.info al.pos) = true → (live && (al.compl []).n) = false := by
    intro h; have h := stmtEnd_stops' h; rw [hi3] at h; exact h2.p4 h.1 h.2
  obtain ⟨e, hje, hjs⟩ := ifJoin_eq p (stmtEnd c.isDeclOrExpr a2.info c.pos) (stmtEnd al.isDeclOrExpr a3.info al.pos) a3
  rw [hje]
  have hn : (Stmt.compl ls (.ifS p test c (some al))).n = ((c.compl []).n || (al.compl []).n) := by simp [Stmt.compl]
  have hstop : stopsEnd a3.sc.end_ = true ∨ stopsEnd (some e) = true →
      (live && ((c.compl []).n || (al.compl []).n)) = false := by
    rintro (h | h)
    · rw [he3, he2] at h; simp [hx.hs h]
    · have := hjs h
      have x := hcr this.1; have y := har this.2
      revert x y; cases live <;> cases (c.compl []).n <;> cases (al.compl []).n <;> simp
  -- the `unreachable` flag at the positions of the three parts
  have hur3 : ∀ q, a3.info.ur q = al'.info.ur q := fun q => by rw [hi3]
  have hurA : ∀ q, q ∉ al.positions → a3.info.ur q = c'.info.ur q := fun q hq => by
    rw [hi3, ur_eq_of_info_eq (h2.frame q hq)]; simp only [childA]; rw [hi2]
  have hurC : ∀ q, q ∉ al.positions → q ∉ c.positions → a3.info.ur q = a1.info.ur q := fun q hq hq' => by
    rw [hurA q hq, ur_eq_of_info_eq (h1.frame q hq')]; rfl
  refine ⟨⟨?_, ?_, ?_, ?_, ?_, ?_, ?_, ?_, ?_, ?_, ?_⟩, ?_⟩
  · intro hst
    rw [markAsEnd_stops] at hst
    rw [hn]; apply hstop
    revert hst; cases stopsEnd a3.sc.end_ <;> simp
  · intro hh
    rw [markAsEnd_foundBreak]
    have : (live && (c.compl []).b) = true ∨ (live && (al.compl []).b) = true := by
      simp only [Stmt.compl, seq_b, evalCompl_b, evalCompl_n, union_b, Bool.false_or, Bool.true_and] at hh
      revert hh; cases live <;> cases (c.compl []).b <;> simp
    rcases this with h | h
    · exact hmb3 (hb2 h)
    · exact hb3 h
  · intro hh
    rw [markAsEnd_foundContinue]
    have : (live && (c.compl []).c) = true ∨ (live && (al.compl []).c) = true := by
      simp only [Stmt.compl, seq_c, evalCompl_c, evalCompl_n, union_c, Bool.false_or, Bool.true_and] at hh
      revert hh; cases live <;> cases (c.compl []).c <;> simp
    rcases this with h | h
    · exact hmc3 (hc2 (by rw [Bool.and_or_distrib_left, h]; rfl))
    · exact hc3 (by rw [Bool.and_or_distrib_left, h]; rfl)
  · intro hh; rw [markAsEnd_foundBreak]; exact hmb3 (hmb2 (by rw [hx.hb]; exact hh))
  · intro hh; rw [markAsEnd_foundContinue]; exact hmc3 (hmc2 (hx.hc hh))
  · intro hh
    rw [markAsEnd_foundContinue]
    have : (live && (c.compl []).hasCl) = true ∨ (live && (al.compl []).hasCl) = true := by
      simp only [Stmt.compl, seq_hasCl, evalCompl_hasCl, evalCompl_n, union_hasCl, Bool.false_or, Bool.true_and] at hh
      revert hh; cases live <;> cases (c.compl []).hasCl <;> simp
    rcases this with h | h
    · exact hmc3 (hc2 (by rw [Bool.and_or_distrib_left, h]; simp))
    · exact hc3 (by rw [Bool.and_or_distrib_left, h]; simp)
  · intro q hq hu
    rw [markAsEnd_ur] at hu
    simp only [Stmt.upos, List.mem_cons, List.mem_append] at hq
    simp only [Stmt.reach, evalCompl_n, Bool.true_and]
    rcases hq with rfl | hqt | hqc | hqa
    · have := hx.dead hpre _ (hurC q hpa hpc) hu
      simp [this]
    · have hqt' := Kids.upos_sub test q hqt
      have hne : q ≠ p := fun e => hx.pk (e ▸ hqt')
      simp [hne, c.reach_false q (htc q hqt'), al.reach_false q (hta q hqt')]
    · have hqc' := Stmt.upos_sub c q hqc
      have hne : q ≠ p := fun e => hpc (e ▸ hqc')
      have hna : q ∉ al.positions := fun h => hdisj q hqc' h
      rw [hurA q hna] at hu
      have := h1.p3 q hqc hu
      rw [al.reach_false q hna]
      revert this; cases live <;> simp [hne]
    · have hqa' := Stmt.upos_sub al q hqa
      have hne : q ≠ p := fun e => hpa (e ▸ hqa')
      have hnc : q ∉ c.positions := fun h => hdisj q h hqa'
      rw [hur3] at hu
      have := h2.p3 q hqa hu
      rw [c.reach_false q hnc]
      revert this; cases live <;> simp [hne]
  · intro q hq hu
    rw [markAsEnd_ur] at hu
    simp only [Stmt.upos, List.mem_cons, List.mem_append] at hq
    simp only [Stmt.inner]
    rcases hq with rfl | hqt | hqc | hqa
    · simp [Kids.inner_false test q hx.pk, c.inner_false q hpc, al.inner_false q hpa]
    · have hqt' := Kids.upos_sub test q hqt
      rw [hurC q (hta q hqt') (htc q hqt')] at hu
      simp [hk.p3 q hqt hu, c.inner_false q (htc q hqt'), al.inner_false q (hta q hqt')]
    · have hqc' := Stmt.upos_sub c q hqc
      have hna : q ∉ al.positions := fun h => hdisj q hqc' h
      rw [hurA q hna] at hu
      simp [h1.p3i q hqc hu, al.inner_false q hna, Kids.inner_false test q (fun h => htc q h hqc')]
    · have hqa' := Stmt.upos_sub al q hqa
      have hnc : q ∉ c.positions := fun h => hdisj q h hqa'
      rw [hur3] at hu
      simp [h2.p3i q hqa hu, c.inner_false q hnc, Kids.inner_false test q (fun h => hta q h hqa')]
  · intro q hq
    simp only [Stmt.positions, List.mem_cons, List.mem_append, not_or] at hq
    rw [markAsEnd_info_other _ _ _ _ hq.1, hi3, h2.frame q hq.2.2.2]
    simp only [childA]
    rw [hi2, h1.frame q hq.2.2.1]
    simp only [childA]
    exact hx.hi q hq.1 hq.2.1
  · intro hh; rw [markAsEnd_mayThrow]; exact hmt3 (hmt2 (hx.hmt hh))
  · intro hh
    rw [markAsEnd_mayThrow]
    simp only [Stmt.compl, seq_t, evalCompl_t, evalCompl_n, union_t, Bool.true_and] at hh
    cases hkt : (live && test.mayThrow) with
    | true => exact hmt3 (hmt2 (Prefix.pT hpre hk hkt))
    | false =>
      cases hct : (live && (c.compl []).t) with
      | true => exact hmt3 (hpt2 hct)
      | false =>
        apply hpt3
        revert hh hkt hct; cases live <;> cases test.mayThrow <;> cases (c.compl []).t <;> simp
  · intro _ hst
    simp only [Stmt.pos] at hst
    rw [hn]; apply hstop
    exact markAsEnd_self_stops _ _ _ hst

end DL.CF
