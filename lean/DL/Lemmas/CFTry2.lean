import DL.Lemmas.CFTry

/-! `with_child_scope(Catch | Finally)` and the two joins of `visit_try_stmt`. -/
namespace DL.CF

theorem mergeFb_default_keep (afb cfb : Option (Option Id)) :
    (cfb = some none → (if cfb == some none then some none else if afb.isNone then cfb else afb) = some none) ∧
    (afb = some none → (if cfb == some none then some none else if afb.isNone then cfb else afb) = some none) := by
  constructor
  · intro h; simp [h]
  · intro h
    by_cases hc : (cfb == some none) = true
    · simp [hc]
    · simp [hc, h]

theorem withChild_mark (kind : BlockKind) (hkind : kind = .catch_ ∨ kind = .finally_) (mp : Nat) (op : A → A) (z : A) :
    let c := op (childA kind z)
    let y := withChild kind mp op z
    (∀ q, y.info.ur q = c.info.ur q) ∧ (∀ q, q ≠ mp → y.info q = c.info q) ∧
    y.sc.foundContinue = (z.sc.foundContinue || c.sc.foundContinue) ∧
    y.sc.mayThrow = (z.sc.mayThrow || c.sc.mayThrow) ∧
    (c.sc.foundBreak = some none → y.sc.foundBreak = some none) ∧
    (z.sc.foundBreak = some none → y.sc.foundBreak = some none) ∧
    (stopsEnd y.sc.end_ = true → stopsEnd z.sc.end_ = true ∨ stopsEnd c.sc.end_ = true) := by
  simp only [withChild, withChildR, childA]
  generalize op { sc := { end_ := childEnd kind z.sc.end_ }, info := z.info } = c
  have hfb := mergeFb_default_keep z.sc.foundBreak c.sc.foundBreak
  have hm : mergeFb kind z.sc.foundBreak c.sc.foundBreak =
      (if c.sc.foundBreak == some none then some none else if z.sc.foundBreak.isNone then c.sc.foundBreak else z.sc.foundBreak) := by
    rcases hkind with h | h <;> subst h <;> rfl
  rcases hce : c.sc.end_ with _ | e
  · have : childExit kind mp z.sc.end_ { sc := mergeSc kind z.sc c.sc, info := c.info } none =
        { sc := mergeSc kind z.sc c.sc, info := c.info } := rfl
    rw [this]
    refine ⟨fun _ => rfl, fun _ _ => rfl, rfl, rfl, ?_, ?_, fun h => Or.inl h⟩
    · intro h; simp only [mergeSc]; rw [hm]; exact hfb.1 h
    · intro h; simp only [mergeSc]; rw [hm]; exact hfb.2 h
  · have : childExit kind mp z.sc.end_ { sc := mergeSc kind z.sc c.sc, info := c.info } (some e) =
        markAsEnd mp e { sc := mergeSc kind z.sc c.sc, info := c.info } := by
      rcases hkind with h | h <;> subst h <;> rfl
    rw [this]
    refine ⟨fun q => by simp, fun q hq => markAsEnd_info_other _ _ _ _ hq, by simp [mergeSc], by simp [mergeSc], ?_, ?_, ?_⟩
    · intro h; rw [markAsEnd_foundBreak]; simp only [mergeSc]; rw [hm]; exact hfb.1 h
    · intro h; rw [markAsEnd_foundBreak]; simp only [mergeSc]; rw [hm]; exact hfb.2 h
    · intro h
      rw [markAsEnd_stops] at h
      simp only [mergeSc, Bool.or_eq_true] at h
      exact h

theorem tryCatchJoin_sc (te : Option End) (tm : Bool) (y : A) :
    (tryCatchJoin te tm y).sc.foundBreak = y.sc.foundBreak ∧ (tryCatchJoin te tm y).sc.foundContinue = y.sc.foundContinue ∧
    (tryCatchJoin te tm y).sc.mayThrow = y.sc.mayThrow := by
  unfold tryCatchJoin
  split
  · split <;> exact ⟨rfl, rfl, rfl⟩
  · exact ⟨rfl, rfl, rfl⟩

theorem tryCatchJoin_stops (te : Option End) (y : A) (h : stopsEnd (tryCatchJoin te true y).sc.end_ = true) :
    stopsEnd te = true ∧ stopsEnd y.sc.end_ = true := by
  unfold tryCatchJoin at h
  simp only [if_true] at h
  rcases hy : y.sc.end_ with _ | ⟨r2, t2, i2⟩ | _ | _ <;> rcases te with _ | ⟨r, t, i⟩ | _ | _ <;>
    simp only [hy] at h <;> (try cases r <;> cases t <;> cases i) <;> simp_all [A.setEnd]

theorem tryCatchJoin_false (te : Option End) (y : A) : (tryCatchJoin te false y).sc.end_ = te := by
  simp [tryCatchJoin]

theorem finallyJoin_sc (te : Option End) (w : A) :
    (finallyJoin te w).sc.foundBreak = w.sc.foundBreak ∧ (finallyJoin te w).sc.foundContinue = w.sc.foundContinue ∧
    (finallyJoin te w).sc.mayThrow = w.sc.mayThrow := by
  unfold finallyJoin
  split <;> exact ⟨rfl, rfl, rfl⟩

theorem finallyJoin_stops (te : Option End) (w : A) (h : stopsEnd (finallyJoin te w).sc.end_ = true) :
    stopsEnd te = true ∨ stopsEnd w.sc.end_ = true := by
  unfold finallyJoin at h
  rcases hw : w.sc.end_ with _ | ⟨r2, t2, i2⟩ | _ | _ <;> rcases te with _ | ⟨r, t, i⟩ | _ | _ <;>
    simp only [hw] at h <;> simp_all [A.setEnd]

end DL.CF
