import DL.Lemmas.RxReader
import DL.Lemmas.RxIdent

/-! # The `eat_*` leaves never panic -/
namespace DL.Rx

-- the unifier otherwise tries to evaluate `isScalar c` (bit operations on literals) when it meets it in an `if`
attribute [local irreducible] isScalar

/-! ### digit facts: the test made before each `to_digit(..).unwrap()` implies `Some` -/

theorem toDigit_of_hex {c : Nat} (h : isAsciiHexdigit c = true) : ∃ d, toDigit c 16 = some d ∧ d < 16 := by
  unfold isAsciiHexdigit at h
  unfold toDigit
  by_cases hs : isScalar c = true
  · rw [if_pos hs] at h; rw [if_pos hs]
    have h := of_decide_eq_true h
    unfold charToDigit
    by_cases h1 : 0x30 ≤ c ∧ c ≤ 0x39
    · rw [if_pos h1]; dsimp only; rw [if_pos (by omega)]; exact ⟨_, rfl, by omega⟩
    · rw [if_neg h1]
      by_cases h2 : 0x61 ≤ c ∧ c ≤ 0x7a
      · rw [if_pos h2]; dsimp only; rw [if_pos (by omega)]; exact ⟨_, rfl, by omega⟩
      · rw [if_neg h2]
        have h3 : 0x41 ≤ c ∧ c ≤ 0x5a := by omega
        rw [if_pos h3]; dsimp only; rw [if_pos (by omega)]; exact ⟨_, rfl, by omega⟩
  · rw [if_neg hs] at h; cases h

theorem toDigit_of_isDigit {c r : Nat} (h : isDigit c r = true) : (toDigit c r).isSome = true := by
  unfold isDigit at h
  unfold toDigit
  by_cases hs : isScalar c = true
  · rw [if_pos hs] at h; rw [if_pos hs]; exact h
  · rw [if_neg hs] at h; cases h

theorem toDigit_of_asciiDigit {c : Nat} (h : isAsciiDigit c = true) : ∃ d, toDigit c 10 = some d ∧ d < 10 := by
  unfold isAsciiDigit at h
  unfold toDigit
  by_cases hs : isScalar c = true
  · rw [if_pos hs] at h; rw [if_pos hs]
    have h := of_decide_eq_true h
    unfold charToDigit
    rw [if_pos h]; dsimp only; rw [if_pos (by omega)]; exact ⟨_, rfl, by omega⟩
  · rw [if_neg hs] at h; cases h

theorem toDigit_isSome_of_asciiDigit {c : Nat} (h : isAsciiDigit c = true) : (toDigit c 10).isSome = true := by
  obtain ⟨d, hd, _⟩ := toDigit_of_asciiDigit h
  rw [hd]; rfl

theorem toDigit_isSome_of_hex {c : Nat} (h : isAsciiHexdigit c = true) : (toDigit c 16).isSome = true := by
  obtain ⟨d, hd, _⟩ := toDigit_of_hex h
  rw [hd]; rfl

theorem asciiAlphabetic_lt {c : Nat} (h : isAsciiAlphabetic c = true) : c < 0x7b := by
  unfold isAsciiAlphabetic at h
  by_cases hs : isScalar c = true
  · rw [if_pos hs] at h; have h := of_decide_eq_true h; omega
  · rw [if_neg hs] at h; cases h

theorem asciiDigit_lt {c : Nat} (h : isAsciiDigit c = true) : c < 0x7b := by
  unfold isAsciiDigit at h
  by_cases hs : isScalar c = true
  · rw [if_pos hs] at h; have h := of_decide_eq_true h; omega
  · rw [if_neg hs] at h; cases h

theorem propertyName_isChar {c : Nat} (h : isUnicodePropertyNameCharacter c = true) : (toChar c).isSome = true := by
  unfold isUnicodePropertyNameCharacter at h
  rcases Bool.or_eq_true _ _ |>.mp h with h | h
  · exact isChar_lt (by have := asciiAlphabetic_lt h; omega)
  · have : c = ch '_' := by simpa using h
    subst this; decide

theorem propertyValue_isChar {c : Nat} (h : isUnicodePropertyValueCharacter c = true) : (toChar c).isSome = true := by
  unfold isUnicodePropertyValueCharacter at h
  rcases Bool.or_eq_true _ _ |>.mp h with h | h
  · exact propertyName_isChar h
  · exact isChar_lt (by have := asciiDigit_lt h; omega)

/-! ### helpers for the two arithmetic sites -/

theorem checkedI64_inrange {v : Int} {site : String} (h : i64Min ≤ v ∧ v ≤ i64Max) : checkedI64 v site = pure v := by
  unfold checkedI64; rw [if_pos h]

theorem unwrap_some_bind {α β : Type} (a : α) (why : String) (f : α → M β) : (unwrap (some a) why >>= f) = f a := rfl
theorem pure_bind' {α β : Type} (a : α) (f : α → M β) : ((pure a : M α) >>= f) = f a := rfl

theorem Safe.bind_getSt {β : Type} {P : St → Prop} {Q : β → St → Prop} {f : St → M β}
    (h : ∀ s0, P s0 → Safe (fun s => s = s0) (f s0) Q) : Safe P (DL.Rx.getSt >>= f) Q :=
  fun s hs => h s hs s rfl

theorem Safe.codePointWithOffset {P : St → Prop} (k : Nat) : Safe P (codePointWithOffset k) (fun _ s => P s) :=
  fun _ hs => hs

/-- `eat_fixed_hex_digits`' loop: with `k` iterations left and an accumulator below `16^j`, `j + k ≤ 15`, the
`16 * v + d` of `validator.rs:1556` stays inside `i64` -/
theorem eatFixedHexDigitsLoop_safe (start : Nat) : ∀ k j, j + k ≤ 15 →
    Safe (fun s => Inv s ∧ ∃ w : Nat, s.lastIntValue = w ∧ w < 16 ^ j) (eatFixedHexDigitsLoop start k) (fun _ => Inv)
  | 0, _, _ => Safe.pure fun _ h => h.1
  | k + 1, j, hj => by
    unfold eatFixedHexDigitsLoop
    have hrew : Safe (fun s => Inv s ∧ ∃ w : Nat, s.lastIntValue = w ∧ w < 16 ^ j)
        (do rewind start; pure false : M Bool) (fun _ => Inv) :=
      (Keeps.bind (OK.rewind _) fun _ => Keeps.pure).pre (fun _ h => h.1)
    refine Safe.bind (Safe.codePointWithOffset 0) fun cp => ?_
    cases cp with
    | none => exact hrew
    | some c =>
      dsimp only
      refine Safe.ite (fun _ => ?_) fun hc => ?_
      · exact hrew
      obtain ⟨d, hd, hd16⟩ := toDigit_of_hex (c := c) (by simpa using hc)
      rw [hd, unwrap_some_bind]
      refine Safe.bind_getSt fun s0 hs0 => ?_
      obtain ⟨hI, w, hw, hlt⟩ := hs0
      have hpow : 16 ^ (j + 1) ≤ 16 ^ 15 := Nat.pow_le_pow_right (by decide) (by omega)
      have h15 : 16 ^ 15 = 1152921504606846976 := by decide
      rw [Nat.pow_succ] at hpow
      have hlt' : 16 * w + d < 16 ^ (j + 1) := by rw [Nat.pow_succ]; omega
      have hr : i64Min ≤ 16 * s0.lastIntValue + (d : Int) ∧ 16 * s0.lastIntValue + (d : Int) ≤ i64Max := by
        unfold i64Min i64Max; rw [hw]; omega
      rw [checkedI64_inrange hr, pure_bind']
      refine Safe.bind (R := fun _ s => Inv s ∧ s.lastIntValue = 16 * s0.lastIntValue + (d : Int))
        (Safe.modSt fun s hs => by subst hs; exact ⟨hI, rfl⟩) fun _ => ?_
      refine Safe.bind (advance_int _) fun _ => ?_
      refine (eatFixedHexDigitsLoop_safe start k (j + 1) (by omega)).pre fun s hs => ⟨hs.1, 16 * w + d, ?_, hlt'⟩
      rw [hs.2, hw]; simp

theorem OK.eatFixedHexDigits (length : Nat) (h : length ≤ 15) : OK (eatFixedHexDigits length) := by
  unfold DL.Rx.eatFixedHexDigits
  refine Keeps.bind OK.index fun start => ?_
  refine Safe.bind (R := fun _ s => Inv s ∧ ∃ w : Nat, s.lastIntValue = w ∧ w < 16 ^ 0)
    (Safe.modSt fun s hs => ⟨hs, 0, rfl, by decide⟩) fun _ => ?_
  exact eatFixedHexDigitsLoop_safe start length 0 (by omega)

macro_rules | `(tactic| rx_known) => `(tactic| exact OK.eatFixedHexDigits _ (by decide))

end DL.Rx
