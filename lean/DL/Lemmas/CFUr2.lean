import DL.Lemmas.CFUr

namespace DL.CF

/-- the last step of `visit_try_stmt`: the statement ends like its try/catch/finally combination -/
def tryFin (p : Nat) (a : A) : A :=
  match a.sc.end_ with
  | some e => markAsEnd p e a
  | none => a

theorem tryFin_ur (p : Nat) (a : A) (q : Nat) : (tryFin p a).info.ur q = a.info.ur q := by
  unfold tryFin; split <;> simp

/-- the handler part of `visit_try_stmt` (`a` = the state after the try block) -/
def tryHandler (hh : Bool) (cp : Nat) (ck : Kids) (prev : Option End) (a : A) : A :=
  if hh then
    tryCatchJoin a.sc.end_ a.sc.mayThrow
      (withChild .catch_ cp (visitKids ck)
        { (if a.sc.mayThrow then a.setEnd prev else a) with sc := { (if a.sc.mayThrow then a.setEnd prev else a).sc with mayThrow := false } })
  else a

/-- the finalizer part -/
def tryFinalizer (hf : Bool) (fp : Nat) (f : Stmts) (prev : Option End) (a : A) : A :=
  if hf then finallyJoin a.sc.end_ (withChild .finally_ fp (fun x => blockTail fp (visitStmts f x)) (a.setEnd prev))
  else a

theorem visitStmt_try (p bp : Nat) (b : Stmts) (hh : Bool) (cp : Nat) (ck : Kids) (hf : Bool) (fp : Nat) (f : Stmts) (a : A) :
    visitStmt (.tryS p bp b hh cp ck hf fp f) a =
      (let a0 : A := { a with info := a.info.setUnreach p (unreachableFlag a.sc .other) }
       let a1 := blockTail bp (visitStmts b { a0 with sc := { a0.sc with mayThrow := false } })
       let x := tryFin p (tryFinalizer hf fp f a.sc.end_ (tryHandler hh cp ck a.sc.end_ a1))
       { x with sc := { x.sc with mayThrow := x.sc.mayThrow || a.sc.mayThrow } }) := by
  cases hh <;> cases hf <;> rfl

mutual
theorem Stmt.ur_frame : ∀ (s : Stmt) (a : A) (q : Nat), q ∉ s.upos → (visitStmt s a).info.ur q = a.info.ur q
  | .simple p t kids, a, q, h => by
    simp only [Stmt.upos, List.mem_cons, not_or] at h
    simp only [visitStmt]
    rw [Kids.ur_frame kids _ q h.2]; exact ur_setUnreach_ne _ _ _ _ h.1
  | .block p b, a, q, h => by
    simp only [Stmt.upos, List.mem_cons, not_or] at h
    simp only [visitStmt, blockTail_ur]
    rw [Stmts.ur_frame b _ q h.2]; exact ur_setUnreach_ne _ _ _ _ h.1
  | .ifS p t c none, a, q, h => by
    simp only [Stmt.upos, List.mem_cons, List.mem_append, not_or] at h
    simp only [visitStmt, setEnd_ur, markAsEnd_ur, withChild_ur, sobTail_ur]
    rw [Stmt.ur_frame c _ q h.2.2]; simp only
    rw [Kids.ur_frame t _ q h.2.1]; exact ur_setUnreach_ne _ _ _ _ h.1
  | .ifS p t c (some al), a, q, h => by
    simp only [Stmt.upos, List.mem_cons, List.mem_append, not_or] at h
    simp only [visitStmt, ifJoin_ur, withChild_ur, sobTail_ur]
    rw [Stmt.ur_frame al _ q h.2.2.2]; simp only [withChild_ur, sobTail_ur]
    rw [Stmt.ur_frame c _ q h.2.2.1]; simp only
    rw [Kids.ur_frame t _ q h.2.1]; exact ur_setUnreach_ne _ _ _ _ h.1
  | .whileS p t tt b, a, q, h => by
    simp only [Stmt.upos, List.mem_cons, List.mem_append, not_or] at h
    simp only [visitStmt]
    rw [Kids.ur_frame t _ q h.2.1]; simp only [withChild_ur, whileTail_ur]
    rw [Stmt.ur_frame b _ q h.2.2]; exact ur_setUnreach_ne _ _ _ _ h.1
  | .doWhileS p b t tt, a, q, h => by
    simp only [Stmt.upos, List.mem_cons, List.mem_append, not_or] at h
    simp only [visitStmt]
    rw [Kids.ur_frame t _ q h.2.1]; simp only [doWhileAfter_ur, withChild_ur, doWhileTail_ur]
    rw [Stmt.ur_frame b _ q h.2.2]; exact ur_setUnreach_ne _ _ _ _ h.1
  | .forS p i u t ht tt b, a, q, h => by
    simp only [Stmt.upos, List.mem_cons, List.mem_append, not_or] at h
    simp only [visitStmt, withChild_ur, forTail_ur]
    rw [Stmt.ur_frame b _ q h.2.2]; simp only
    rw [Kids.ur_frame t _ q h.2.1.2.2, Kids.ur_frame u _ q h.2.1.2.1, Kids.ur_frame i _ q h.2.1.1]
    exact ur_setUnreach_ne _ _ _ _ h.1
  | .forInOf p l r b, a, q, h => by
    simp only [Stmt.upos, List.mem_cons, List.mem_append, not_or] at h
    simp only [visitStmt, withChild_ur, forInOfTail_ur]
    rw [Stmt.ur_frame b _ q h.2.2]; simp only
    rw [Kids.ur_frame r _ q h.2.1.2, Kids.ur_frame l _ q h.2.1.1]
    exact ur_setUnreach_ne _ _ _ _ h.1
  | .switchS p d cs, a, q, h => by
    simp only [Stmt.upos, List.mem_cons, List.mem_append, not_or] at h
    simp only [visitStmt]
    have : ∀ (e : End) (prev : Option End) (x : A),
        (if e.isForced = true then markAsEnd p e x else (markAsEnd p e x).setEnd prev).info.ur q = x.info.ur q := by
      intro e prev x; split <;> simp
    rw [this, Cases.ur_frame cs _ q h.2.2, Kids.ur_frame d _ q h.2.1]
    exact ur_setUnreach_ne _ _ _ _ h.1
  | .tryS p bp b hh cp ck hf fp f, a, q, h => by
    simp only [Stmt.upos, List.mem_cons, List.mem_append, not_or] at h
    have hflag := ur_setUnreach_ne a.info p (unreachableFlag a.sc .other) q h.1
    rw [visitStmt_try]
    simp only [tryFin_ur]
    have h1 : ∀ x : A, (tryFinalizer hf fp f a.sc.end_ x).info.ur q = x.info.ur q := by
      intro x; unfold tryFinalizer
      cases hf
      · rfl
      · simp only [if_true, finallyJoin_info, withChild_ur, blockTail_ur]
        exact Stmts.ur_frame f _ q h.2.2.2
    have h2 : ∀ x : A, (tryHandler hh cp ck a.sc.end_ x).info.ur q = x.info.ur q := by
      intro x; unfold tryHandler
      cases hh
      · rfl
      · simp only [if_true, tryCatchJoin_info, withChild_ur]
        rw [Kids.ur_frame ck _ q h.2.2.1]
        split <;> rfl
    rw [h1, h2, blockTail_ur, Stmts.ur_frame b _ q h.2.1]; exact hflag
  | .labeled p _ b, a, q, h => by
    simp only [Stmt.upos, List.mem_cons, not_or] at h
    simp only [visitStmt, withChild_ur, sobTail_ur]
    rw [Stmt.ur_frame b _ q h.2]; exact ur_setUnreach_ne _ _ _ _ h.1
  | .brk p _, a, q, h => by
    simp only [Stmt.upos, List.mem_singleton] at h
    simp only [visitStmt]; exact ur_setUnreach_ne _ _ _ _ h
  | .cont p _, a, q, h => by
    simp only [Stmt.upos, List.mem_singleton] at h
    simp only [visitStmt]; exact ur_setUnreach_ne _ _ _ _ h
  | .ret p arg, a, q, h => by
    simp only [Stmt.upos, List.mem_cons, not_or] at h
    simp only [visitStmt, markAsEnd_ur]
    rw [Kids.ur_frame arg _ q h.2]; exact ur_setUnreach_ne _ _ _ _ h.1
  | .throw p arg, a, q, h => by
    simp only [Stmt.upos, List.mem_cons, not_or] at h
    simp only [visitStmt, markAsEnd_ur, throwEffect_info]
    rw [Kids.ur_frame arg _ q h.2]; exact ur_setUnreach_ne _ _ _ _ h.1
theorem Stmts.ur_frame : ∀ (l : Stmts) (a : A) (q : Nat), q ∉ l.upos → (visitStmts l a).info.ur q = a.info.ur q
  | .nil, a, q, _ => rfl
  | .cons s r, a, q, h => by
    simp only [Stmts.upos, List.mem_append, not_or] at h
    simp only [visitStmts]
    rw [Stmts.ur_frame r _ q h.2, sobTail_ur, Stmt.ur_frame s _ q h.1]
theorem Kid.ur_frame : ∀ (k : Kid) (a : A) (q : Nat), q ∉ k.upos → (visitKid k a).info.ur q = a.info.ur q
  | .expr _ ks, a, q, h => by
    simp only [Kid.upos] at h
    simp only [visitKid, exprEffect_info]; exact Kids.ur_frame ks a q h
  | .fnScope p ks, a, q, h => by
    simp only [Kid.upos] at h
    simp only [visitKid, withChild_ur]; exact Kids.ur_frame ks _ q h
  | .block p b, a, q, h => by
    simp only [Kid.upos] at h
    simp only [visitKid, blockTail_ur]; exact Stmts.ur_frame b a q h
  | .stmt s, a, q, h => by
    simp only [Kid.upos] at h
    simp only [visitKid]; exact Stmt.ur_frame s a q h
theorem Kids.ur_frame : ∀ (ks : Kids) (a : A) (q : Nat), q ∉ ks.upos → (visitKids ks a).info.ur q = a.info.ur q
  | .nil, a, q, _ => rfl
  | .cons k r, a, q, h => by
    simp only [Kids.upos, List.mem_append, not_or] at h
    simp only [visitKids]
    rw [Kids.ur_frame r _ q h.2, Kid.ur_frame k _ q h.1]
theorem Cases.ur_frame : ∀ (cs : Cases) (a : A) (q : Nat), q ∉ cs.upos → (visitCases cs a).info.ur q = a.info.ur q
  | .nil, a, q, _ => rfl
  | .cons p _ t b r, a, q, h => by
    simp only [Cases.upos, List.mem_append, not_or] at h
    simp only [visitCases]
    rw [Cases.ur_frame r _ q h.2.2, caseTail_ur, withChildR_ur, Stmts.ur_frame b _ q h.2.1]
    exact Kids.ur_frame t a q h.1
end

end DL.CF
