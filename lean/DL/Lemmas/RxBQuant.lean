import DL.Lemmas.RxBAtomEsc2
import DL.Lemmas.RxCompUni

/-! # Annex B (no `u` flag): quantifiers -/
namespace DL.Rx
open DL.RxSpec DL.Gen.Unicode
attribute [local irreducible] isScalar
variable {src : List Nat} {K : Bool × Nat}

theorem not_digit_comma : ¬DecimalDigit (ch ',') := by
  intro h; have h' : 0x30 ≤ ch ',' ∧ ch ',' ≤ 0x39 := h; revert h'; decide
theorem not_digit_rbrace : ¬DecimalDigit (ch '}') := by
  intro h; have h' : 0x30 ≤ ch '}' ∧ ch '}' ≤ 0x39 := h; revert h'; decide

theorem stop_cons {x : Nat} {m : List Nat} (hx : ¬DecimalDigit x) : ∀ d, (x :: m).head? = some d → ¬DecimalDigit d := by
  intro d hd; cases hd; exact hx

/-- the shape of an `InvalidBracedQuantifier`, in terms of maximal digit runs -/
theorem ibq_elim {m r' : List Nat} (h : RxSpecB.InvalidBracedQuantifier (ch '{' :: m) r') :
    ∃ ds m1, m = ds ++ m1 ∧ ds ≠ [] ∧ (∀ d ∈ ds, DecimalDigit d) ∧ (∀ d, m1.head? = some d → ¬DecimalDigit d) ∧
      (m1 = ch '}' :: r' ∨ ∃ m2, m1 = ch ',' :: m2 ∧ (m2 = ch '}' :: r' ∨
        ∃ ds2, ds2 ≠ [] ∧ (∀ d ∈ ds2, DecimalDigit d) ∧ m2 = ds2 ++ ch '}' :: r')) := by
  obtain ⟨m0, e, hcases⟩ := h
  have e' : m = m0 := (List.cons.inj e).2
  subst e'
  rcases hcases with ⟨ds, hr, hne, hd⟩ | ⟨ds, hr, hne, hd⟩ | ⟨ds₁, ds₂, m₂, ⟨hr1, hne1, hd1⟩, ⟨hr2, hne2, hd2⟩⟩
  · exact ⟨ds, _, hr, hne, hd, stop_cons not_digit_rbrace, .inl rfl⟩
  · exact ⟨ds, _, hr, hne, hd, stop_cons not_digit_comma, .inr ⟨_, rfl, .inl rfl⟩⟩
  · exact ⟨ds₁, _, hr1, hne1, hd1, stop_cons not_digit_comma, .inr ⟨_, rfl, .inr ⟨ds₂, hne2, hd2, hr2⟩⟩⟩

theorem no_ibq_head {r : List Nat} (h : r.head? ≠ some (ch '{')) : ¬∃ r', RxSpecB.InvalidBracedQuantifier r r' := by
  rintro ⟨r', m, e, _⟩
  exact h (by rw [e]; rfl)

theorem no_ibq_nodigits {m : List Nat} (hstop : ∀ d, m.head? = some d → ¬DecimalDigit d) :
    ¬∃ r', RxSpecB.InvalidBracedQuantifier (ch '{' :: m) r' := by
  rintro ⟨r', h⟩
  obtain ⟨ds, m1, e, hne, hds, hs1, _⟩ := ibq_elim h
  have e' : [] ++ m = ds ++ m1 := e
  obtain ⟨e1, _⟩ := run_unique e' (by simp) hds hstop hs1
  exact hne e1.symm

theorem no_ibq_after1 {ds m1 : List Nat} (hds : ∀ d ∈ ds, DecimalDigit d)
    (hstop : ∀ d, m1.head? = some d → ¬DecimalDigit d) (h1 : m1.head? ≠ some (ch ',')) (h2 : m1.head? ≠ some (ch '}')) :
    ¬∃ r', RxSpecB.InvalidBracedQuantifier (ch '{' :: (ds ++ m1)) r' := by
  rintro ⟨r', h⟩
  obtain ⟨ds', m1', e, _, hds', hs1, hsh⟩ := ibq_elim h
  obtain ⟨_, e2⟩ := run_unique e hds hds' hstop hs1
  subst e2
  rcases hsh with e | ⟨m2, e, _⟩
  · exact h2 (by rw [e]; rfl)
  · exact h1 (by rw [e]; rfl)

theorem no_ibq_after2 {ds ds2 m2 : List Nat} (hds : ∀ d ∈ ds, DecimalDigit d) (hds2 : ∀ d ∈ ds2, DecimalDigit d)
    (hstop : ∀ d, m2.head? = some d → ¬DecimalDigit d) (h2 : m2.head? ≠ some (ch '}')) :
    ¬∃ r', RxSpecB.InvalidBracedQuantifier (ch '{' :: (ds ++ ch ',' :: (ds2 ++ m2))) r' := by
  rintro ⟨r', h⟩
  obtain ⟨ds', m1', e, _, hds', hs1, hsh⟩ := ibq_elim h
  obtain ⟨_, e2⟩ := run_unique e hds hds' (stop_cons not_digit_comma) hs1
  subst e2
  rcases hsh with e | ⟨m2', e, hm2⟩
  · cases e
  · have e' : ds2 ++ m2 = m2' := (List.cons.inj e).2
    subst e'
    rcases hm2 with e | ⟨ds3, _, hds3, e⟩
    · have e' : ds2 ++ m2 = [] ++ (ch '}' :: r') := e
      obtain ⟨_, e3⟩ := run_unique e' hds2 (by simp) hstop (stop_cons not_digit_rbrace)
      exact h2 (by rw [e3]; rfl)
    · obtain ⟨_, e3⟩ := run_unique e hds2 hds3 hstop (stop_cons not_digit_rbrace)
      exact h2 (by rw [e3]; rfl)

theorem nil_of_iff {w : List Nat} (h : False ↔ w ≠ []) : w = [] := by
  cases w with
  | nil => rfl
  | cons a t => exact (h.mpr (List.cons_ne_nil a t)).elim

/-- a leaf of `eat_braced_quantifier` that answers `false`: no `InvalidBracedQuantifier` starts here -/
macro "ibq_false_leaf" : tactic => `(tactic| (
  refine ⟨by rx6_keep, ?_⟩
  rw [if_neg (by decide)]
  refine ⟨by rx6_at, ?_⟩
  subst_vars
  first
  | exact no_ibq_head (by assumption)
  | (have e := nil_of_iff ‹False ↔ _›; subst e; exact no_ibq_nodigits (by assumption))
  | exact no_ibq_after2 (by assumption) (by assumption) (by assumption) (by assumption)
  | exact no_ibq_after1 (by assumption) (by assumption) (by assumption) (by assumption)))

theorem eatBracedQuantifier_wb (n : Nat) (noError : Bool) (r : List Nat) (s : St) (h : BAt src K r s) :
    Wp (eatBracedQuantifier n noError s) (fun b s1 => KeepN s s1 ∧
      if b = true then ∃ r1, BAt src K r1 s1 ∧ (noError = false → QuantifierPrefix qokSat r r1)
      else BAt src K r s1 ∧ ¬∃ r', RxSpecB.InvalidBracedQuantifier r r') := by
  unfold eatBracedQuantifier
  rx6_autos
  all_goals (try ibq_false_leaf)
  · -- `{ DecimalDigits , }`
    rename_i m hat0 ds1 hds1 hne1 m2 hat1 hm hnx1 hat2 ds2 hds2 hne2 r1 hat3 hm2 hnx2 hat4 hn
    have hnil : ds2 = [] := by
      cases ds2 with
      | nil => rfl
      | cons a t => exact (hne2.mpr (List.cons_ne_nil a t)).elim
    subst hnil
    refine ⟨by rx6_keep, ?_⟩
    rw [if_pos rfl]
    refine ⟨r1, by rx6_at, fun _ => ?_⟩
    rw [hm, hm2]
    exact QuantifierPrefix.atLeast _ r1 ds1 ⟨rfl, hne1.mp trivial, hds1⟩
  · -- `{ DecimalDigits , DecimalDigits }`
    rename_i m hat0 ds1 hds1 hne1 m2 hat1 hm hnx1 hat2 ds2 hds2 hne2 r1 hat3 hm2 hnx2 hat4 hn
    refine ⟨by rx6_keep, ?_⟩
    rw [if_pos rfl]
    refine ⟨r1, by rx6_at, fun hno => ?_⟩
    subst hno
    rw [hm, hm2]
    refine QuantifierPrefix.range _ _ r1 ds1 ds2 ⟨rfl, hne1.mp trivial, hds1⟩ ⟨rfl, hne2.mp trivial, hds2⟩ ?_
    simp only [st_simp, Bool.not_false, Bool.true_and] at hn
    exact Int.not_lt.mp (fun hlt => hn (decide_eq_true hlt))
  · -- `{ DecimalDigits }`
    rename_i m hat0 ds1 hds1 hne1 r1 hat1 hm hnx1 hat2 hnc hn
    refine ⟨by rx6_keep, ?_⟩
    rw [if_pos rfl]
    refine ⟨r1, by rx6_at, fun _ => ?_⟩
    rw [hm]
    exact QuantifierPrefix.exact _ r1 ds1 ⟨rfl, hne1.mp trivial, hds1⟩

theorem consumeQuantifier_wb (n : Nat) (noConsume : Bool) (r : List Nat) (s : St) (h : BAt src K r s) :
    Wp (consumeQuantifier n noConsume s) (fun b s1 => KeepN s s1 ∧
      if b = true then ∃ r1, BAt src K r1 s1 ∧ (noConsume = false → Quantifier qokSat r r1)
      else BAt src K r s1) := by
  unfold consumeQuantifier
  rx6_auto
  all_goals (try rx6_false)
  · rx6_true; exact ⟨_, by rx6_at, fun _ => Quantifier.lazy _ _ (QuantifierPrefix.star _)⟩
  · rx6_true; exact ⟨_, by rx6_at, fun _ => Quantifier.greedy _ _ (QuantifierPrefix.star _)⟩
  · rx6_true; exact ⟨_, by rx6_at, fun _ => Quantifier.lazy _ _ (QuantifierPrefix.plus _)⟩
  · rx6_true; exact ⟨_, by rx6_at, fun _ => Quantifier.greedy _ _ (QuantifierPrefix.plus _)⟩
  · rx6_true; exact ⟨_, by rx6_at, fun _ => Quantifier.lazy _ _ (QuantifierPrefix.opt _)⟩
  · rx6_true; exact ⟨_, by rx6_at, fun _ => Quantifier.greedy _ _ (QuantifierPrefix.opt _)⟩
  · rename_i _ _ _ s1 hk r1 hat1 hat2 hq
    rx6_true; exact ⟨_, by rx6_at, fun hno => Quantifier.lazy _ _ (hq hno)⟩
  · rename_i _ _ _ s1 hk r1 hat1 hq _
    rx6_true; exact ⟨_, by rx6_at, fun hno => Quantifier.greedy _ _ (hq hno)⟩

theorem consumeOptionalQuantifier_wb (n : Nat) (r : List Nat) (s : St) (h : BAt src K r s) :
    Wp (consumeOptionalQuantifier n s) (fun b s1 => b = true ∧ KeepN s s1 ∧
      ∃ r1, BAt src K r1 s1 ∧ (r1 = r ∨ Quantifier qokSat r r1)) := by
  unfold consumeOptionalQuantifier
  rx6_auto
  rename_i b s1 hk hb
  refine ⟨rfl, hk, ?_⟩
  cases b
  · rw [if_neg (by decide)] at hb
    exact ⟨r, hb, .inl rfl⟩
  · rw [if_pos rfl] at hb
    obtain ⟨r1, hat, hq⟩ := hb
    exact ⟨r1, hat, .inr (hq rfl)⟩

theorem consumeInvalidBracedQuantifier_wb (n : Nat) (r : List Nat) (s : St) (h : BAt src K r s) :
    Wp (consumeInvalidBracedQuantifier n s) (fun b s1 => b = false ∧ BAt src K r s1 ∧ KeepN s s1 ∧
      ¬∃ r', RxSpecB.InvalidBracedQuantifier r r') := by
  unfold consumeInvalidBracedQuantifier
  rx6_auto
  exact ⟨rfl, ‹BAt src K r _›, ‹KeepN s _›, ‹¬∃ r', _›⟩

theorem consumeReverseSolidusFollowedByC_wb (r : List Nat) (s : St) (h : BAt src K r s) :
    Wp (consumeReverseSolidusFollowedByC s) (fun b s1 => Keep s s1 ∧
      if b = true then ∃ r', r = ch '\\' :: ch 'c' :: r' ∧ BAt src K (ch 'c' :: r') s1 else BAt src K r s1) := by
  unfold consumeReverseSolidusFollowedByC
  rx6_auto
  all_goals (try rx6_false)
  rename_i x r' hc hat
  rx6_true
  have hc' := (Bool.and_eq_true _ _).mp hc
  have h1 : x = ch '\\' := by simpa using hc'.1
  subst h1
  cases r' with
  | nil => simp at hc'
  | cons y r'' =>
    have h2 : y = ch 'c' := by simpa using hc'.2
    subst h2
    exact ⟨r'', rfl, by rx6_at⟩

theorem consumeExtendedPatternCharacter_wb (hsrc : ∀ x ∈ src, x ≤ 0xFFFF) (r : List Nat) (s : St) (h : BAt src K r s) :
    Wp (consumeExtendedPatternCharacter s) (fun b s1 => Keep s s1 ∧
      if b = true then ∃ x r1, r = x :: r1 ∧ RxSpecB.ExtendedPatternCharacter x ∧ BAt src K r1 s1 else BAt src K r s1) := by
  unfold consumeExtendedPatternCharacter
  rx6_auto
  all_goals (try rx6_false)
  rename_i x r' hc hat
  rx6_true
  refine ⟨x, r', rfl, ⟨hsrc x (h.mem_src (by simp)), ?_⟩, by rx6_at⟩
  simp only [Bool.and_eq_true, bne_iff_ne, ne_eq] at hc
  simp only [List.mem_cons, List.not_mem_nil, or_false, not_or]
  exact ⟨hc.1.1.1.1.1.1.1.1.1.1, hc.1.1.1.1.1.1.1.1.1.2, hc.1.1.1.1.1.1.1.1.2, hc.1.1.1.1.1.1.1.2, hc.1.1.1.1.1.1.2,
    hc.1.1.1.1.1.2, hc.1.1.1.1.2, hc.1.1.1.2, hc.1.1.2, hc.1.2, hc.2⟩

end DL.Rx
