import DL.Lemmas.RxLeaves

/-! # The `eat_*` leaves never panic (continued) -/
namespace DL.Rx
attribute [local irreducible] isScalar

theorem not_not_eq_true {b : Bool} (h : ¬(!b) = true) : b = true := by cases b <;> simp_all

/-- discharges the `Some`-ness side conditions of `unwrap` from the test made just before -/
macro "rx_side" : tactic => `(tactic| first
  | exact toDigit_of_isDigit (by assumption)
  | exact toDigit_isSome_of_hex (not_not_eq_true (by assumption))
  | exact toDigit_isSome_of_asciiDigit (not_not_eq_true (by assumption)))

theorem OK.eatOctalDigit : OK eatOctalDigit := by
  unfold DL.Rx.eatOctalDigit; rx_auto; all_goals rx_side
macro_rules | `(tactic| rx_known) => `(tactic| exact OK.eatOctalDigit)

theorem OK.eatLegacyOctalEscapeSequence : OK eatLegacyOctalEscapeSequence := by
  unfold DL.Rx.eatLegacyOctalEscapeSequence; rx_auto
macro_rules | `(tactic| rx_known) => `(tactic| exact OK.eatLegacyOctalEscapeSequence)

theorem OK.eatHexDigitsLoop : ∀ n, OK (eatHexDigitsLoop n)
  | 0 => Keeps.outOfFuel
  | n + 1 => by
    have ih := OK.eatHexDigitsLoop n
    unfold DL.Rx.eatHexDigitsLoop; rx_auto; all_goals rx_side
macro_rules | `(tactic| rx_known) => `(tactic| exact OK.eatHexDigitsLoop _)

theorem OK.eatHexDigits (fuel : Nat) : OK (eatHexDigits fuel) := by
  unfold DL.Rx.eatHexDigits; rx_auto
macro_rules | `(tactic| rx_known) => `(tactic| exact OK.eatHexDigits _)

theorem Safe.codePointWithOffset_eq {P : St → Prop} (k : Nat) :
    Safe P (DL.Rx.codePointWithOffset k) (fun a s => a = s.reader.cps[k]? ∧ P s) :=
  fun _ hs => ⟨rfl, hs⟩

/-- `validator.rs:1453`: the second `code_point_with_offset(0).unwrap()` sees the same state as the `while let Some` -/
theorem OK.eatDecimalDigitsLoop : ∀ n, OK (eatDecimalDigitsLoop n)
  | 0 => Keeps.outOfFuel
  | n + 1 => by
    have ih := OK.eatDecimalDigitsLoop n
    unfold DL.Rx.eatDecimalDigitsLoop
    refine Safe.bind (Safe.codePointWithOffset_eq 0) fun o => ?_
    cases o with
    | none => exact Safe.pure fun _ h => h.2
    | some cp =>
      dsimp only
      refine Safe.ite (fun _ => Safe.pure fun _ h => h.2) fun hc => ?_
      have hd := toDigit_isSome_of_asciiDigit (not_not_eq_true hc)
      refine Safe.bind (Safe.codePointWithOffset_eq 0) fun o' => ?_
      refine Safe.pre (P := fun s => Inv s ∧ o' = some cp) ?_ (fun s h => ⟨h.2.2, h.1.trans h.2.1.symm⟩)
      refine Safe.assume fun ho => ?_
      subst ho
      rw [unwrap_some_bind]
      rx_auto
      exact hd
macro_rules | `(tactic| rx_known) => `(tactic| exact OK.eatDecimalDigitsLoop _)

theorem OK.eatDecimalDigits (fuel : Nat) : OK (eatDecimalDigits fuel) := by
  unfold DL.Rx.eatDecimalDigits; rx_auto
macro_rules | `(tactic| rx_known) => `(tactic| exact OK.eatDecimalDigits _)

theorem OK.eatHexEscapeSequence : OK eatHexEscapeSequence := by
  unfold DL.Rx.eatHexEscapeSequence; rx_auto
macro_rules | `(tactic| rx_known) => `(tactic| exact OK.eatHexEscapeSequence)

theorem OK.eatPropertyCharsLoop (p : Nat → Bool) (site : String) (hp : ∀ c, p c = true → (toChar c).isSome = true) :
    ∀ n, OK (eatPropertyCharsLoop p site n)
  | 0 => Keeps.outOfFuel
  | n + 1 => by
    have ih := OK.eatPropertyCharsLoop p site hp n
    unfold DL.Rx.eatPropertyCharsLoop; rx_auto
    exact hp _ (not_not_eq_true (by assumption))

theorem OK.eatUnicodePropertyName (fuel : Nat) : OK (eatUnicodePropertyName fuel) := by
  have := OK.eatPropertyCharsLoop _ "validator.rs:1373 to_char().unwrap()" (fun _ => propertyName_isChar) fuel
  unfold DL.Rx.eatUnicodePropertyName; rx_auto
macro_rules | `(tactic| rx_known) => `(tactic| exact OK.eatUnicodePropertyName _)

theorem OK.eatUnicodePropertyValue (fuel : Nat) : OK (eatUnicodePropertyValue fuel) := by
  have := OK.eatPropertyCharsLoop _ "validator.rs:1392 to_char().unwrap()" (fun _ => propertyValue_isChar) fuel
  unfold DL.Rx.eatUnicodePropertyValue; rx_auto
macro_rules | `(tactic| rx_known) => `(tactic| exact OK.eatUnicodePropertyValue _)

theorem OK.eatLoneUnicodePropertyNameOrValue (fuel : Nat) : OK (eatLoneUnicodePropertyNameOrValue fuel) :=
  OK.eatUnicodePropertyValue fuel
macro_rules | `(tactic| rx_known) => `(tactic| exact OK.eatLoneUnicodePropertyNameOrValue _)

theorem OK.eatUnicodePropertyValueExpression (fuel : Nat) : OK (eatUnicodePropertyValueExpression fuel) := by
  unfold DL.Rx.eatUnicodePropertyValueExpression; rx_auto
macro_rules | `(tactic| rx_known) => `(tactic| exact OK.eatUnicodePropertyValueExpression _)

theorem OK.eatDecimalEscapeLoop : ∀ n, OK (eatDecimalEscapeLoop n)
  | 0 => Keeps.outOfFuel
  | n + 1 => by
    have ih := OK.eatDecimalEscapeLoop n
    unfold DL.Rx.eatDecimalEscapeLoop; rx_auto; all_goals rx_side
macro_rules | `(tactic| rx_known) => `(tactic| exact OK.eatDecimalEscapeLoop _)

/-- `validator.rs:1292-1293`: `10 * last_int_value + d` right after `last_int_value = 0` -/
theorem OK.eatDecimalEscape (fuel : Nat) : OK (eatDecimalEscape fuel) := by
  unfold DL.Rx.eatDecimalEscape
  refine Safe.bind (R := fun _ s => Inv s ∧ s.lastIntValue = 0) (Safe.modSt fun s hs => ⟨hs, rfl⟩) fun _ => ?_
  refine Safe.bind (Safe.codePointWithOffset 0) fun o => ?_
  cases o with
  | none => exact Safe.pure fun _ h => h.1
  | some cp =>
    dsimp only
    refine Safe.ite (fun hc => ?_) (fun _ => Safe.pure fun _ h => h.1)
    have hdig : isAsciiDigit cp = true := (Bool.and_eq_true _ _ |>.mp hc).1
    obtain ⟨d, hd, hd10⟩ := toDigit_of_asciiDigit hdig
    rw [hd, unwrap_some_bind]
    refine Safe.bind_getSt fun s0 hs0 => ?_
    have hr : i64Min ≤ 10 * s0.lastIntValue + (d : Int) ∧ 10 * s0.lastIntValue + (d : Int) ≤ i64Max := by
      unfold i64Min i64Max; rw [hs0.2]; omega
    rw [checkedI64_inrange hr, pure_bind']
    refine Safe.pre (P := Inv) ?_ (fun s hs => hs ▸ hs0.1)
    rx_auto
macro_rules | `(tactic| rx_known) => `(tactic| exact OK.eatDecimalEscape _)

theorem OK.isValidIdentityEscape (cp : Nat) : OK (isValidIdentityEscape cp) := by
  unfold DL.Rx.isValidIdentityEscape; rx_auto
macro_rules | `(tactic| rx_known) => `(tactic| exact OK.isValidIdentityEscape _)

theorem OK.eatIdentityEscape : OK eatIdentityEscape := by
  unfold DL.Rx.eatIdentityEscape; rx_auto
macro_rules | `(tactic| rx_known) => `(tactic| exact OK.eatIdentityEscape)

theorem OK.eatRegexpUnicodeCodepointEscape (fuel : Nat) : OK (eatRegexpUnicodeCodepointEscape fuel) := by
  unfold DL.Rx.eatRegexpUnicodeCodepointEscape; rx_auto
macro_rules | `(tactic| rx_known) => `(tactic| exact OK.eatRegexpUnicodeCodepointEscape _)

theorem OK.eatRegexpUnicodeSurrogatePairEscape : OK eatRegexpUnicodeSurrogatePairEscape := by
  unfold DL.Rx.eatRegexpUnicodeSurrogatePairEscape; rx_auto
macro_rules | `(tactic| rx_known) => `(tactic| exact OK.eatRegexpUnicodeSurrogatePairEscape)

theorem OK.eatRegexpUnicodeEscapeSequence (fuel : Nat) (f : Bool) : OK (eatRegexpUnicodeEscapeSequence fuel f) := by
  unfold DL.Rx.eatRegexpUnicodeEscapeSequence; rx_auto
macro_rules | `(tactic| rx_known) => `(tactic| exact OK.eatRegexpUnicodeEscapeSequence _ _)

theorem OK.eatControlLetter : OK eatControlLetter := by
  unfold DL.Rx.eatControlLetter; rx_auto
macro_rules | `(tactic| rx_known) => `(tactic| exact OK.eatControlLetter)

theorem OK.eatControlEscape : OK eatControlEscape := by
  unfold DL.Rx.eatControlEscape; rx_auto
macro_rules | `(tactic| rx_known) => `(tactic| exact OK.eatControlEscape)

theorem OK.eatZero : OK eatZero := by
  unfold DL.Rx.eatZero; rx_auto
macro_rules | `(tactic| rx_known) => `(tactic| exact OK.eatZero)

theorem OK.eatCControlLetter : OK eatCControlLetter := by
  unfold DL.Rx.eatCControlLetter; rx_auto
macro_rules | `(tactic| rx_known) => `(tactic| exact OK.eatCControlLetter)

end DL.Rx
