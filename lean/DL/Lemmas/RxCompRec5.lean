import DL.Lemmas.RxCompRec4

/-! # Completeness: the recursive productions (the induction) -/
namespace DL.Rx
open DL.RxSpec DL.Gen.Unicode

attribute [local irreducible] isScalar
variable {src : List Nat} {N : Nat}

theorem term_of_assertion {i r : List Nat} {a : Attr} (ih : PA src N i r a) : PT src N i r a := by
  intro n s hat hnq hnd
  have ih' : ∀ n s, UAt src N i s → ND s.groupNames a →
    Wc (consumeAssertion n s) (fun b s1 => b = true ∧ UAt src N r s1 ∧ TrackC s s1 a) := ih
  cases n with
  | zero => exact Wc.outOfFuel
  | succ n =>
    unfold consumeTerm
    rx5_autos
    exact ⟨rfl, ‹UAt src N r _›, ‹TrackC s _ a›⟩

theorem term_of_atom {i r : List Nat} {a : Attr} (hatom : Derives qokSat N .Atom i r a) (ih : PAt src N i r a) :
    PT src N i r a := by
  intro n s hat hnq hnd
  have ih' : ∀ n s, UAt src N i s → ND s.groupNames a →
    Wc (consumeAtom n s) (fun b s1 => b = true ∧ UAt src N r s1 ∧ TrackC s s1 a) := ih
  have hnas := atom_nas hatom
  cases n with
  | zero => exact Wc.outOfFuel
  | succ n =>
    unfold consumeTerm
    rx5_autos
    exact ⟨by assumption, ‹UAt src N r _›, TrackC.pre ‹KeepN s _› ‹TrackC _ _ a›⟩

theorem term_of_quantified {i m r : List Nat} {a : Attr} (hatom : Derives qokSat N .Atom i m a)
    (hq : Quantifier qokSat m r) (ih : PAt src N i m a) : PT src N i r a := by
  intro n s hat hnq hnd
  have ih' : ∀ n s, UAt src N i s → ND s.groupNames a →
    Wc (consumeAtom n s) (fun b s1 => b = true ∧ UAt src N m s1 ∧ TrackC s s1 a) := ih
  have hnas := atom_nas hatom
  have hf3 := hnq.2.2.1
  cases n with
  | zero => exact Wc.outOfFuel
  | succ n =>
    unfold consumeTerm
    rx5_autos
    rename_i hk1 _ _ _ _ htr _ _ _ _ hk2
    exact ⟨by assumption, ‹UAt src N r _›, TrackC.pre hk1 (TrackC.post htr hk2)⟩

theorem atom_patternCharacter {x : Nat} {r : List Nat} (hx : PatternCharacter x) : PAt src N (x :: r) r Attr.nil := by
  intro n s hat hnd
  have hx2 := hx.2
  cases n with
  | zero => exact Wc.outOfFuel
  | succ n =>
    unfold consumeAtom
    rx5_autos
    exact ⟨rfl, ‹UAt src N r _›, TrackC.ofKeep ‹Keep s _›⟩

theorem atom_dot {r : List Nat} : PAt src N (ch '.' :: r) r Attr.nil := by
  intro n s hat hnd
  have hs : ∀ x, (ch '.' :: r).head? = some x → SyntaxCharacter x := syn_head (by unfold SyntaxCharacter; decide)
  cases n with
  | zero => exact Wc.outOfFuel
  | succ n =>
    unfold consumeAtom
    rx5_autos
    exact ⟨rfl, ‹UAt src N r _›, TrackC.ofKeepN ⟨rfl, rfl⟩⟩

theorem atom_escape {m r : List Nat} {a : Attr} (hae : AtomEscape N m r a) : PAt src N (ch '\\' :: m) r a := by
  intro n s hat hnd
  have hs : ∀ x, (ch '\\' :: m).head? = some x → SyntaxCharacter x := syn_head (by unfold SyntaxCharacter; decide)
  cases n with
  | zero => exact Wc.outOfFuel
  | succ n =>
    unfold consumeAtom
    rx5_autos
    exact ⟨rfl, ‹UAt src N r _›, ‹TrackC _ _ a›⟩

theorem atom_class {i r : List Nat} (hc : CharacterClass i r) : PAt src N i r Attr.nil := by
  intro n s hat hnd
  have hi : ∃ m, i = ch '[' :: m := by cases hc <;> exact ⟨_, rfl⟩
  obtain ⟨m, rfl⟩ := hi
  have hs : ∀ x, (ch '[' :: m).head? = some x → SyntaxCharacter x := syn_head (by unfold SyntaxCharacter; decide)
  cases n with
  | zero => exact Wc.outOfFuel
  | succ n =>
    unfold consumeAtom
    rx5_autos
    exact ⟨rfl, ‹UAt src N r _›, TrackC.ofKeepN ‹KeepN _ _›⟩

theorem atom_nonCapturing {m r : List Nat} {a : Attr} (hdj : PDj src N m (ch ')' :: r) a) :
    PAt src N (ch '(' :: ch '?' :: ch ':' :: m) r a := by
  intro n s hat hnd
  have hs : ∀ x, (ch '(' :: ch '?' :: ch ':' :: m).head? = some x → SyntaxCharacter x :=
    syn_head (by unfold SyntaxCharacter; decide)
  have hgrp := uncapturing_wc (src := src) (N := N) hdj
  cases n with
  | zero => exact Wc.outOfFuel
  | succ n =>
    unfold consumeAtom
    rx5_autos
    exact ⟨by first | rfl | assumption, ‹UAt src N r _›, ‹TrackC _ _ _›⟩

theorem atom_group_named {m m₂ r : List Nat} {nm : Name} {a : Attr} (hg : GroupName m m₂ nm)
    (hdj : PDj src N m₂ (ch ')' :: r) a) :
    PAt src N (ch '(' :: ch '?' :: m) r (⟨[some nm], []⟩ ++ a) := by
  intro n s hat hnd
  have hs : ∀ x, (ch '(' :: ch '?' :: m).head? = some x → SyntaxCharacter x :=
    syn_head (by unfold SyntaxCharacter; decide)
  have hgrp := capturing_named_wc (src := src) (N := N) hg hdj
  obtain ⟨m', rfl, _⟩ := hg
  cases n with
  | zero => exact Wc.outOfFuel
  | succ n =>
    unfold consumeAtom
    rx5_autos
    exact ⟨by first | rfl | assumption, ‹UAt src N r _›, ‹TrackC _ _ _›⟩

theorem atom_group_empty {m r : List Nat} {a : Attr} (hq : m.head? ≠ some (ch '?'))
    (hdj : PDj src N m (ch ')' :: r) a) :
    PAt src N (ch '(' :: m) r (⟨[none], []⟩ ++ a) := by
  intro n s hat hnd
  have hs : ∀ x, (ch '(' :: m).head? = some x → SyntaxCharacter x :=
    syn_head (by unfold SyntaxCharacter; decide)
  have hgrp := capturing_empty_wc (src := src) (N := N) hq hdj
  have hne3 : ¬∃ r', ch '(' :: m = ch '(' :: ch '?' :: ch ':' :: r' := by
    rintro ⟨r', e⟩
    exact hq (by rw [(List.cons.inj e).2]; rfl)
  cases n with
  | zero => exact Wc.outOfFuel
  | succ n =>
    unfold consumeAtom
    rx5_autos
    exact ⟨by first | rfl | assumption, ‹UAt src N r _›, ‹TrackC _ _ _›⟩

theorem disj_one {i r : List Nat} {a : Attr} (ih : TermsP (N := N) (PT src N) i r a) : PD src N i r a := by
  intro n s hat hf hnd
  refine Wc.call (alt_loop ih hf.alt n s hat hnd) (fun _ s1 hpost => ?_)
  obtain ⟨hat1, htr⟩ := hpost
  have hne : r.head? ≠ some (ch '|') := by
    rcases hf with rfl | hf
    · exact nil_head_ne _
    · rw [hf]; decide
  cases n with
  | zero => exact Wc.outOfFuel
  | succ n =>
    unfold consumeDisjunctionLoop
    rx5_autos
    exact ⟨hat1, htr⟩

theorem disj_more {i m r : List Nat} {a₁ a₂ : Attr} (ih1 : TermsP (N := N) (PT src N) i (ch '|' :: m) a₁)
    (ih2 : PD src N m r a₂) : PD src N i r (a₁ ++ a₂) := by
  intro n s hat hf hnd
  refine Wc.call (alt_loop ih1 (.inr (.inl rfl)) n s hat hnd.left) (fun _ s1 hpost => ?_)
  obtain ⟨hat1, htr⟩ := hpost
  cases n with
  | zero => exact Wc.outOfFuel
  | succ n =>
    unfold consumeDisjunctionLoop
    rx5_autos
    refine (ih2 n _ ‹UAt src N m _› hf (ND.right hnd (by rw [← htr.gn]; rfl))).mono ?_
    rintro _ s2 ⟨hat2, htr2⟩
    exact ⟨hat2, TrackC.trans htr (TrackC.move _ _ htr2 rfl rfl rfl rfl)⟩

/-- **completeness of the recursive productions**: the validator follows every derivation -/
theorem derives_complete {sym : Sym} {i r : List Nat} {a : Attr} (h : Derives qokSat N sym i r a) :
    Motive src N sym i r a := by
  induction h with
  | disjOne i r a _ ih => exact disj_one ih
  | disjMore i m r a₁ a₂ _ _ ih1 ih2 => exact disj_more ih1 ih2
  | altEmpty r => exact TermsP.nil r
  | altSnoc i m r a₁ a₂ _ ht ih1 ih2 => exact TermsP.snoc ih1 ht ih2
  | termAssertion i r a _ ih => exact term_of_assertion ih
  | termAtom i r a hatom ih => exact term_of_atom hatom ih
  | termQuantified i m r a hatom hq ih => exact term_of_quantified hatom hq ih
  | caret r => exact caret_wc
  | dollar r => exact dollar_wc
  | wordBoundary r => exact wordBoundary_wc
  | notWordBoundary r => exact notWordBoundary_wc
  | lookahead i m r a hl _ ih =>
    have e : i = ch '(' :: ch '?' :: ch '=' :: m := hl
    subst e
    exact lookahead_wc (disj_of_body ih (.inr rfl))
  | negativeLookahead i m r a hl _ ih =>
    have e : i = ch '(' :: ch '?' :: ch '!' :: m := hl
    subst e
    exact negativeLookahead_wc (disj_of_body ih (.inr rfl))
  | lookbehind i m r a hl _ ih =>
    have e : i = ch '(' :: ch '?' :: ch '<' :: ch '=' :: m := hl
    subst e
    exact lookbehind_wc (disj_of_body ih (.inr rfl))
  | negativeLookbehind i m r a hl _ ih =>
    have e : i = ch '(' :: ch '?' :: ch '<' :: ch '!' :: m := hl
    subst e
    exact negativeLookbehind_wc (disj_of_body ih (.inr rfl))
  | patternCharacter x r hx => exact atom_patternCharacter hx
  | dot r => exact atom_dot
  | atomEscape m r a hae => exact atom_escape hae
  | characterClass i r hc => exact atom_class hc
  | group m₁ m₂ r name a hg hd ih =>
    cases hg with
    | empty _ =>
      have hq : m₁.head? ≠ some (c '?') := derives_head hd (.inl (head_cons_ne (by decide) _))
      exact atom_group_empty hq (disj_of_body ih (.inr rfl))
    | named m _ nm hgn => exact atom_group_named hgn (disj_of_body ih (.inr rfl))
  | nonCapturing i m r a hl _ ih =>
    have e : i = ch '(' :: ch '?' :: ch ':' :: m := hl
    subst e
    exact atom_nonCapturing (disj_of_body ih (.inr rfl))

end DL.Rx
