import DL.Lemmas.RxCompRec2

/-! # Completeness: the recursive productions -/
namespace DL.Rx
open DL.RxSpec DL.Gen.Unicode

attribute [local irreducible] isScalar
variable {src : List Nat} {N : Nat}

theorem TrackC.move (s0 s1 : St) {s s2 : St} {a : Attr} (h : TrackC s0 s1 a)
    (e1 : s0.groupNames = s.groupNames) (e2 : s0.backreferenceNames = s.backreferenceNames)
    (e3 : s2.groupNames = s1.groupNames) (e4 : s2.backreferenceNames = s1.backreferenceNames) : TrackC s s2 a :=
  ⟨by rw [e3, h.gn, e1], fun x => by rw [e4, h.bn, e2]⟩

/-- transport a `TrackC` fact over moves of the reader -/
macro "rx5_track" : tactic => `(tactic| first
  | assumption
  | (refine TrackC.move ?_ ?_ ?h ?e1 ?e2 ?e3 ?e4; rotate_left 2; assumption; all_goals rfl))

/-- more side conditions: the bookkeeping of new group names -/
macro_rules
  | `(tactic| rx5_side) => `(tactic| first
    | exact ND.left ‹ND _ (_ ++ _)›
    | exact ND.right ‹ND _ (_ ++ _)› (TrackC.gn ‹TrackC _ _ _›)
    | exact ND.right ‹ND _ (_ ++ _)› (TrackC.gn (by rx5_track))
    | exact AltFollow.noQ ‹AltFollow _›
    | exact DFollow.alt ‹DFollow _›
    | (rw [KeepN.gn ‹KeepN _ _›]; assumption)
    | rx5_ne2
    | rx5_ne3
    | assumption)

def PT (src : List Nat) (N : Nat) (i r : List Nat) (a : Attr) : Prop :=
  ∀ n s, UAt src N i s → NoQ r → ND s.groupNames a →
    Wc (consumeTerm n s) (fun b s1 => b = true ∧ UAt src N r s1 ∧ TrackC s s1 a)

def PA (src : List Nat) (N : Nat) (i r : List Nat) (a : Attr) : Prop :=
  ∀ n s, UAt src N i s → ND s.groupNames a →
    Wc (consumeAssertion n s) (fun b s1 => b = true ∧ UAt src N r s1 ∧ TrackC s s1 a)

def PAt (src : List Nat) (N : Nat) (i r : List Nat) (a : Attr) : Prop :=
  ∀ n s, UAt src N i s → ND s.groupNames a →
    Wc (consumeAtom n s) (fun b s1 => b = true ∧ UAt src N r s1 ∧ TrackC s s1 a)

def PD (src : List Nat) (N : Nat) (i r : List Nat) (a : Attr) : Prop :=
  ∀ n s, UAt src N i s → DFollow r → ND s.groupNames a →
    Wc ((consumeAlternative n >>= fun _ => consumeDisjunctionLoop n) s) (fun _ s1 => UAt src N r s1 ∧ TrackC s s1 a)

theorem alt_loop {i r : List Nat} {a : Attr} (h : TermsP (N := N) (PT src N) i r a) (hf : AltFollow r) :
    ∀ n s, UAt src N i s → ND s.groupNames a →
      Wc (consumeAlternative n s) (fun _ s1 => UAt src N r s1 ∧ TrackC s s1 a) := by
  induction h with
  | nil r =>
    intro n s hat hnd
    cases n with
    | zero => exact Wc.outOfFuel
    | succ n =>
      have hterm := fun s (h : UAt src N r s) => consumeTerm_wcn (src := src) (N := N) n r s h hf.nas hf.nat
      unfold consumeAlternative
      rx5_autos
      · exact ⟨‹UAt src N _ _›, TrackC.ofKeepN ‹KeepN s _›⟩
      · exact ⟨hat, TrackC.ofKeepN (KeepN.refl _)⟩
  | cons i m r a₁ a₂ ht hp hrest ih =>
    intro n s hat hnd
    have ih' := ih hf
    have hp' : ∀ n s, UAt src N i s → NoQ m → ND s.groupNames a₁ →
      Wc (consumeTerm n s) (fun b s1 => b = true ∧ UAt src N m s1 ∧ TrackC s s1 a₁) := hp
    have hq : NoQ m := hrest.noQ hf.noQ
    obtain ⟨x, i', rfl⟩ := term_cons ht rfl
    cases n with
    | zero => exact Wc.outOfFuel
    | succ n =>
      unfold consumeAlternative
      rx5_autos
      exact ⟨‹UAt src N r _›, TrackC.trans ‹TrackC s _ a₁› ‹TrackC _ _ a₂›⟩

/-- the specification of `consume_disjunction` that the callers use -/
def PDj (src : List Nat) (N : Nat) (i r : List Nat) (a : Attr) : Prop :=
  ∀ n s, UAt src N i s → ND s.groupNames a →
    Wc (consumeDisjunction n s) (fun _ s1 => UAt src N r s1 ∧ TrackC s s1 a)

theorem disj_of_body {i r : List Nat} {a : Attr} (hd : PD src N i r a) (hf : DFollow r) : PDj src N i r a := by
  intro n s hat hnd
  cases n with
  | zero => exact Wc.outOfFuel
  | succ n =>
    have e : consumeDisjunction (n + 1) = ((consumeAlternative n >>= fun _ => consumeDisjunctionLoop n) >>= fun _ => do
        if ← consumeQuantifier n true then fail "Nothing to repeat"
        else if ← eat '{' then fail "Lone quantifier brackets"
        else pure ()) := by
      conv => lhs; unfold consumeDisjunction
      rw [bind_assoc']
    rw [e]
    refine Wc.call (hd n s hat hf hnd) (fun _ s1 hpost => ?_)
    obtain ⟨hat1, htr⟩ := hpost
    have hnq : NoQ r := hf.alt.noQ
    have hq := fun s (h : UAt src N r s) => consumeQuantifier_wcn (src := src) (N := N) n true r s h hnq
    have h4 := hnq.2.2.2
    rx5_autos
    exact ⟨‹UAt src N r _›, htr⟩

theorem TrackC.none {s s1 : St} (h : KeepN s s1) : TrackC s s1 ⟨[none], []⟩ :=
  ⟨by rw [h.gn]; exact (List.append_nil _).symm, fun x => by
    rw [h.bn]; exact ⟨.inl, fun h => h.elim id (fun h => nomatch h)⟩⟩

theorem ND.right_none {g : List Name} {a : Attr} (h : ND g (⟨[none], []⟩ ++ a)) : ND g a := h

theorem ND.right_some {g g1 : List Name} {nm : Name} {a : Attr} (h : ND g (⟨[some nm], []⟩ ++ a))
    (hg : g1 = g ++ [nm]) : ND g1 a := ND.right h hg

theorem uncapturing_wc {m r : List Nat} {a : Attr} (hdj : PDj src N m (ch ')' :: r) a) :
    ∀ n s, UAt src N (ch '(' :: ch '?' :: ch ':' :: m) s → ND s.groupNames a →
      Wc (consumeUncapturingGroup n s) (fun b s1 => b = true ∧ UAt src N r s1 ∧ TrackC s s1 a) := by
  intro n s hat hnd
  have hdj' : ∀ n s, UAt src N m s → ND s.groupNames a →
    Wc (consumeDisjunction n s) (fun _ s1 => UAt src N (ch ')' :: r) s1 ∧ TrackC s s1 a) := hdj
  cases n with
  | zero => exact Wc.outOfFuel
  | succ n =>
    unfold consumeUncapturingGroup
    rx5_autos
    exact ⟨rfl, by rx4_at, by rx5_track⟩

theorem capturing_named_wc {m m₂ r : List Nat} {nm : Name} {a : Attr} (hg : GroupName m m₂ nm)
    (hdj : PDj src N m₂ (ch ')' :: r) a) :
    ∀ n s, UAt src N (ch '(' :: ch '?' :: m) s → ND s.groupNames (⟨[some nm], []⟩ ++ a) →
      Wc (consumeCapturingGroup n s) (fun b s1 => b = true ∧ UAt src N r s1 ∧ TrackC s s1 (⟨[some nm], []⟩ ++ a)) := by
  intro n s hat hnd
  have hdj' : ∀ n s, UAt src N m₂ s → ND s.groupNames a →
    Wc (consumeDisjunction n s) (fun _ s1 => UAt src N (ch ')' :: r) s1 ∧ TrackC s s1 a) := hdj
  have hnew : ¬nm ∈ s.groupNames := ND.new hnd
  cases n with
  | zero => exact Wc.outOfFuel
  | succ n =>
    unfold consumeCapturingGroup
    rx5_autos
    rename_i t1 _ _ _ t2 _
    exact ⟨rfl, by rx4_at, TrackC.move _ _ (TrackC.trans t1 t2) rfl rfl rfl rfl⟩

theorem capturing_empty_wc {m r : List Nat} {a : Attr} (hq : m.head? ≠ some (ch '?'))
    (hdj : PDj src N m (ch ')' :: r) a) :
    ∀ n s, UAt src N (ch '(' :: m) s → ND s.groupNames (⟨[none], []⟩ ++ a) →
      Wc (consumeCapturingGroup n s) (fun b s1 => b = true ∧ UAt src N r s1 ∧ TrackC s s1 (⟨[none], []⟩ ++ a)) := by
  intro n s hat hnd
  have hdj' : ∀ n s, UAt src N m s → ND s.groupNames a →
    Wc (consumeDisjunction n s) (fun _ s1 => UAt src N (ch ')' :: r) s1 ∧ TrackC s s1 a) := hdj
  have hnd' : ND s.groupNames a := ND.right_none hnd
  cases n with
  | zero => exact Wc.outOfFuel
  | succ n =>
    unfold consumeCapturingGroup
    rx5_autos
    rename_i t1 _
    exact ⟨rfl, by rx4_at, TrackC.move _ _
      (TrackC.trans (TrackC.none (⟨rfl, rfl⟩ : KeepN s (s.setPos src (s.reader.index + 1)))) t1) rfl rfl rfl rfl⟩

end DL.Rx
