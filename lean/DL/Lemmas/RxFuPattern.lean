import DL.Lemmas.RxFuMutual

/-! # Fuel adequacy: `consume_pattern` -/
namespace DL.Rx
attribute [local irreducible] isScalar
variable {E : Nat}

theorem F.countCapturingParensLoop : ∀ (n : Nat) (inClass escaped : Bool) (count i : Nat) (ne : Bool),
    E - i + 1 ≤ n → Fu E i ne (countCapturingParensLoop n inClass escaped count) (fun _ => i)
  | 0, _, _, _, i, _, hn => by exfalso; omega
  | n + 1, inClass, escaped, count, i, ne, hn => by
    have ih := F.countCapturingParensLoop n
    unfold DL.Rx.countCapturingParensLoop; rx3_auto

theorem F.countCapturingParens (i : Nat) {ne : Bool} (n : Nat) (hn : E - i + 1 ≤ n) : Fu E i ne (countCapturingParens n) (fun _ => i) := by
  unfold DL.Rx.countCapturingParens; rx3_auto

theorem F.consumePattern (i : Nat) {ne : Bool} (n : Nat) (hn : 5 * (E - i) + 15 ≤ n) :
    Fu E i ne (consumePattern n) (fun _ => i) := by
  unfold DL.Rx.consumePattern; rx3_auto

/-- `validate_pattern` after the reader has been re-filled -/
def afterReset (fuel : Nat) : M Unit := do
  consumePattern fuel
  let s ← getSt
  if !s.nFlag && true && !s.groupNames.isEmpty then
    modSt fun s => { s with nFlag := true }
    rewind 0
    consumePattern fuel

theorem F.afterReset {ne : Bool} (n : Nat) (hn : 5 * E + 15 ≤ n) : Fu E 0 ne (afterReset n) (fun _ => 0) := by
  unfold DL.Rx.afterReset; rx3_auto

end DL.Rx
