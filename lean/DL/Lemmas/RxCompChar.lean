import DL.Lemmas.RxCompTac
import DL.Lemmas.RxSpecChar

/-! # Completeness: `CharacterEscape` (u-mode) -/
namespace DL.Rx
open DL.RxSpec

attribute [local irreducible] isScalar
variable {src : List Nat} {N : Nat}

theorem ne_of_head_ne {x y : Nat} {m : List Nat} (h : (x :: m).head? ≠ some y) : x ≠ y := by
  intro he; exact h (by rw [he]; rfl)

/-- the `ControlEscape` letters and their values -/
def ctlVal (x : Nat) : Option Nat :=
  if x = ch 'f' then some 12 else if x = ch 'n' then some 10 else if x = ch 'r' then some 13
  else if x = ch 't' then some 9 else if x = ch 'v' then some 11 else none

theorem ctlVal_none {x : Nat} (h1 : x ≠ ch 'f') (h2 : x ≠ ch 'n') (h3 : x ≠ ch 'r') (h4 : x ≠ ch 't') (h5 : x ≠ ch 'v') :
    ctlVal x = none := by
  unfold ctlVal; rw [if_neg h1, if_neg h2, if_neg h3, if_neg h4, if_neg h5]

theorem eatControlEscape_wc (x : Nat) (r1 : List Nat) (v : Nat) (s : St) (h : UAt src N (x :: r1) s)
    (hx : ctlVal x = some v) :
    Wc (eatControlEscape s) (fun b s1 => b = true ∧ UAt src N r1 s1 ∧ s1.lastIntValue = (v : Nat) ∧ Keep s s1) := by
  unfold eatControlEscape
  rx5_auto
  case f =>
    rename_i h1 h2 h3 h4 h5
    rw [ctlVal_none (ne_of_head_ne h1) (ne_of_head_ne h2) (ne_of_head_ne h3) (ne_of_head_ne h4) (ne_of_head_ne h5)] at hx
    cases hx
  all_goals rx5_fin
  all_goals (cases hx; rfl)

theorem eatControlEscape_wcn (r : List Nat) (s : St) (h : UAt src N r s) (hn : r.head?.bind ctlVal = none) :
    Wc (eatControlEscape s) (fun b s1 => b = false ∧ s1 = s) := by
  unfold eatControlEscape
  rx5_auto
  all_goals (first | (cases hn; done) | exact ⟨rfl, rfl⟩)

theorem eatControlLetter_wc (l : Nat) (r1 : List Nat) (s : St) (h : UAt src N (l :: r1) s) (hl : ControlLetter l) :
    Wc (eatControlLetter s) (fun b s1 => b = true ∧ UAt src N r1 s1 ∧ s1.lastIntValue = ((l % 32 : Nat) : Int) ∧ Keep s s1) := by
  unfold eatControlLetter
  rx5_auto
  case neg => rename_i hn; exact absurd (isAsciiAlphabetic_of_controlLetter hl) hn
  rx5_fin

theorem eatCControlLetter_wc (l : Nat) (r1 : List Nat) (s : St) (h : UAt src N (ch 'c' :: l :: r1) s)
    (hl : ControlLetter l) :
    Wc (eatCControlLetter s) (fun b s1 => b = true ∧ UAt src N r1 s1 ∧ s1.lastIntValue = ((l % 32 : Nat) : Int) ∧ Keep s s1) := by
  unfold eatCControlLetter
  rx5_auto
  rx5_fin

theorem eatCControlLetter_wcn (r : List Nat) (s : St) (h : UAt src N r s) (hn : r.head? ≠ some (ch 'c')) :
    Wc (eatCControlLetter s) (fun b s1 => b = false ∧ s1 = s) := by
  unfold eatCControlLetter
  rx5_auto
  all_goals first | exact absurd rfl hn | exact ⟨rfl, rfl⟩

theorem isAsciiDigit_decimalDigit {d : Nat} (h : isAsciiDigit d = true) : DecimalDigit d :=
  decimalDigit_of_isAsciiDigit h

theorem eatZero_wc (r1 : List Nat) (s : St) (h : UAt src N (ch '0' :: r1) s)
    (hnd : ∀ d, r1.head? = some d → ¬DecimalDigit d) :
    Wc (eatZero s) (fun b s1 => b = true ∧ UAt src N r1 s1 ∧ s1.lastIntValue = 0 ∧ Keep s s1) := by
  unfold eatZero
  rx5_auto
  case pos =>
    rename_i hc
    exfalso
    cases r1 with
    | nil => cases hc
    | cons y r2 => exact hnd y rfl (isAsciiDigit_decimalDigit hc)
  rx5_fin

theorem eatZero_wcn (r : List Nat) (s : St) (h : UAt src N r s) (hn : r.head? ≠ some (ch '0')) :
    Wc (eatZero s) (fun b s1 => b = false ∧ s1 = s) := by
  unfold eatZero
  rx5_auto
  all_goals (try exact ⟨rfl, rfl⟩)
  rename_i x r' hx _ _
  exfalso; apply hn
  have : x = ch '0' := by simpa using hx
  rw [this]; rfl

theorem eatFixedHexDigits_wc (k : Nat) (hk : k ≤ 15) (ds r1 : List Nat) (s : St) (h : UAt src N (ds ++ r1) s)
    (hlen : ds.length = k) (hds : ∀ d ∈ ds, HexDigit d) :
    Wc (eatFixedHexDigits k s) (fun b s1 => b = true ∧ UAt src N r1 s1 ∧ s1.lastIntValue = (mvHex ds : Nat) ∧ Keep s s1) := by
  refine (Wc.of_wp (eatFixedHexDigits_wp k hk _ s h) (NE.eatFixedHexDigits k)).mono ?_
  rintro b s1 ⟨hk1, hb⟩
  cases b
  · rw [if_neg (by decide)] at hb
    exact absurd ⟨ds, r1, rfl, hlen, hds⟩ hb.2
  · rw [if_pos rfl] at hb
    obtain ⟨ds', r1', he, hl', _, hat, hv⟩ := hb
    obtain ⟨h1, h2⟩ := List.append_inj he (by omega)
    subst h1 h2
    exact ⟨rfl, hat, hv, hk1⟩

theorem eatFixedHexDigits_wcn (k : Nat) (hk : k ≤ 15) (r : List Nat) (s : St) (h : UAt src N r s)
    (hn : ¬∃ ds r1, r = ds ++ r1 ∧ ds.length = k ∧ ∀ d ∈ ds, HexDigit d) :
    Wc (eatFixedHexDigits k s) (fun b s1 => b = false ∧ UAt src N r s1 ∧ Keep s s1) := by
  refine (Wc.of_wp (eatFixedHexDigits_wp k hk _ s h) (NE.eatFixedHexDigits k)).mono ?_
  rintro b s1 ⟨hk1, hb⟩
  cases b
  · rw [if_neg (by decide)] at hb
    exact ⟨rfl, hb.1, hk1⟩
  · rw [if_pos rfl] at hb
    obtain ⟨ds', r1', he, hl', hd', _⟩ := hb
    exact absurd ⟨ds', r1', he, hl', hd'⟩ hn

theorem eatHexEscapeSequence_wc (a b : Nat) (r1 : List Nat) (s : St) (h : UAt src N (ch 'x' :: a :: b :: r1) s)
    (ha : HexDigit a) (hb : HexDigit b) :
    Wc (eatHexEscapeSequence s) (fun b' s1 => b' = true ∧ UAt src N r1 s1 ∧ s1.lastIntValue = (mvHex [a, b] : Nat) ∧ Keep s s1) := by
  have hfx := fun s h => eatFixedHexDigits_wc (src := src) (N := N) 2 (by decide) [a, b] r1 s h rfl
    (by intro d hd; simp at hd; rcases hd with rfl | rfl <;> assumption)
  unfold eatHexEscapeSequence
  rx5_auto
  rx5_fin

theorem eatHexEscapeSequence_wcn (r : List Nat) (s : St) (h : UAt src N r s) (hn : r.head? ≠ some (ch 'x')) :
    Wc (eatHexEscapeSequence s) (fun b s1 => b = false ∧ s1 = s) := by
  unfold eatHexEscapeSequence
  rx5_auto
  all_goals first | exact absurd rfl hn | exact ⟨rfl, rfl⟩

theorem eatIdentityEscape_wc (x : Nat) (r1 : List Nat) (s : St) (h : UAt src N (x :: r1) s)
    (hx : SyntaxCharacter x ∨ x = c '/') :
    Wc (eatIdentityEscape s) (fun b s1 => b = true ∧ UAt src N r1 s1 ∧ s1.lastIntValue = (x : Nat) ∧ Keep s s1) := by
  unfold eatIdentityEscape isValidIdentityEscape
  rx5_auto
  case neg =>
    rename_i hn
    exfalso; apply hn
    rcases hx with hx | hx
    · rw [(syntaxCharacter_iff x).mpr hx]; rfl
    · rw [hx]; rfl
  rx5_fin

end DL.Rx
