import DL.Lemmas.CFViol

/-! The switch cases and the function bodies (getter candidates) occurring in a program, at any depth. -/
namespace DL.CF

/-- the positions of the statements of a list (not of the statements nested in them) -/
def Stmts.topPos : Stmts → List Nat
  | .nil => []
  | .cons s r => s.pos :: r.topPos

theorem Stmts.topPos_sub : ∀ (l : Stmts) (q : Nat), q ∈ l.topPos → q ∈ l.upos
  | .nil, q, h => by simp [Stmts.topPos] at h
  | .cons s r, q, h => by
    simp only [Stmts.topPos, List.mem_cons] at h
    simp only [Stmts.upos, List.mem_append]
    rcases h with h | h
    · exact Or.inl (h ▸ s.pos_mem_upos)
    · exact Or.inr (Stmts.topPos_sub r q h)

theorem stmtsStop_congr (info info' : Info) : ∀ (l : Stmts), (∀ q ∈ l.topPos, info' q = info q) →
    stmtsStop info' l = stmtsStop info l
  | .nil, _ => rfl
  | .cons s r, h => by
    simp only [stmtsStop]
    rw [metaStops_congr (h s.pos (by simp [Stmts.topPos])),
      stmtsStop_congr info info' r (fun q hq => h q (by simp [Stmts.topPos, hq]))]

mutual
/-- every switch case in the syntax: (position of its `switch` statement, case body) -/
def Stmt.swCases : Stmt → List (Nat × Stmts)
  | .simple _ _ kids => kids.swCases
  | .block _ b => b.swCases
  | .ifS _ t c none => t.swCases ++ c.swCases
  | .ifS _ t c (some a) => t.swCases ++ (c.swCases ++ a.swCases)
  | .whileS _ t _ b => t.swCases ++ b.swCases
  | .doWhileS _ b t _ => t.swCases ++ b.swCases
  | .forS _ i u t _ _ b => (i.swCases ++ (u.swCases ++ t.swCases)) ++ b.swCases
  | .forInOf _ l r b => (l.swCases ++ r.swCases) ++ b.swCases
  | .switchS p d cs => d.swCases ++ cs.swCasesAt p
  | .tryS _ _ b _ _ ck _ _ f => b.swCases ++ (ck.swCases ++ f.swCases)
  | .labeled _ _ b => b.swCases
  | .brk _ _ => []
  | .cont _ _ => []
  | .ret _ a => a.swCases
  | .throw _ a => a.swCases
def Stmts.swCases : Stmts → List (Nat × Stmts)
  | .nil => []
  | .cons s r => s.swCases ++ r.swCases
def Kid.swCases : Kid → List (Nat × Stmts)
  | .expr _ ks => ks.swCases
  | .fnScope _ ks => ks.swCases
  | .block _ b => b.swCases
  | .stmt s => s.swCases
def Kids.swCases : Kids → List (Nat × Stmts)
  | .nil => []
  | .cons k r => k.swCases ++ r.swCases
def Cases.swCasesAt (sp : Nat) : Cases → List (Nat × Stmts)
  | .nil => []
  | .cons _ _ t body r => (sp, body) :: (t.swCases ++ (body.swCases ++ r.swCasesAt sp))
end

/-- the body blocks directly among the kids of the function scope at `p` -/
def Kids.fnBodies (p : Nat) : Kids → List Getter
  | .nil => []
  | .cons (.block q body) r => ⟨p, q, body⟩ :: r.fnBodies p
  | .cons (.expr _ _) r => r.fnBodies p
  | .cons (.fnScope _ _) r => r.fnBodies p
  | .cons (.stmt _) r => r.fnBodies p

mutual
/-- every function scope with a body block in the syntax (position of the scope, position of the body block, body):
the candidates of `getter-return` -/
def Stmt.getters : Stmt → List Getter
  | .simple _ _ kids => kids.getters
  | .block _ b => b.getters
  | .ifS _ t c none => t.getters ++ c.getters
  | .ifS _ t c (some a) => t.getters ++ (c.getters ++ a.getters)
  | .whileS _ t _ b => t.getters ++ b.getters
  | .doWhileS _ b t _ => t.getters ++ b.getters
  | .forS _ i u t _ _ b => (i.getters ++ (u.getters ++ t.getters)) ++ b.getters
  | .forInOf _ l r b => (l.getters ++ r.getters) ++ b.getters
  | .switchS _ d cs => d.getters ++ cs.getters
  | .tryS _ _ b _ _ ck _ _ f => b.getters ++ (ck.getters ++ f.getters)
  | .labeled _ _ b => b.getters
  | .brk _ _ => []
  | .cont _ _ => []
  | .ret _ a => a.getters
  | .throw _ a => a.getters
def Stmts.getters : Stmts → List Getter
  | .nil => []
  | .cons s r => s.getters ++ r.getters
def Kid.getters : Kid → List Getter
  | .expr _ ks => ks.getters
  | .fnScope p ks => ks.fnBodies p ++ ks.getters
  | .block _ b => b.getters
  | .stmt s => s.getters
def Kids.getters : Kids → List Getter
  | .nil => []
  | .cons k r => k.getters ++ r.getters
def Cases.getters : Cases → List Getter
  | .nil => []
  | .cons _ _ t body r => t.getters ++ (body.getters ++ r.getters)
end

end DL.CF
