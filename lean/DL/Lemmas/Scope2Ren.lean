import DL.Lemmas.Scope2

/-! Lemmas about M-SCOPE2: the renaming invariant.  Well-formedness is used in exactly one place (`vars_ren`): a `var`
that sits in nested blocks is renamed together with the frame of its function because no scope in between declares the
same name. -/
namespace DL.Scope2

theorem sw_ne {x y z : Nat} (h : z ≠ x) : sw x y z = z := by simp [sw, h]
theorem sw_self (x y : Nat) : sw x y x = y := by simp [sw]

theorem mem_map_sw {x y z : Nat} {fr : List Nat} (hy : y ∉ fr) (hz : z ≠ y) : sw x y z ∈ fr.map (sw x y) ↔ z ∈ fr := by
  simp only [List.mem_map]
  constructor
  · rintro ⟨w, hw, he⟩
    have hwy : w ≠ y := fun h => hy (h ▸ hw)
    by_cases hwx : w = x
    · by_cases hzx : z = x
      · subst hwx; subst hzx; exact hw
      · subst hwx; rw [sw_self, sw_ne hzx] at he; exact absurd he.symm hz
    · by_cases hzx : z = x
      · rw [sw_ne hwx, hzx, sw_self] at he; exact absurd he hwy
      · rw [sw_ne hwx, sw_ne hzx] at he; exact he ▸ hw
  · intro h; exact ⟨z, h, rfl⟩

theorem map_sw_of_not_mem {x y : Nat} {l : List Nat} (h : x ∉ l) : l.map (sw x y) = l := by
  induction l with
  | nil => rfl
  | cons a r ih =>
    simp only [List.mem_cons, not_or] at h
    rw [List.map_cons, ih h.2, sw_ne (fun hh => h.1 hh.symm)]

/-! ### `renL`, `renO`, `renN` -/
theorem renL_nil (x y : Nat) (a : Bool) : renL x y a [] = [] := by cases a <;> rfl
theorem renL_append (x y : Nat) (a : Bool) (l m : List Nat) : renL x y a (l ++ m) = renL x y a l ++ renL x y a m := by
  cases a <;> simp [renL]
theorem renL_singleton (x y : Nat) (a : Bool) (z : Nat) : renL x y a [z] = [renN x y a z] := by cases a <;> rfl
theorem renL_cons (x y : Nat) (a : Bool) (z : Nat) (l : List Nat) :
    renL x y a (z :: l) = renN x y a z :: renL x y a l := by cases a <;> rfl
theorem toList_renO (x y : Nat) (a : Bool) (o : Option Nat) : (renO x y a o).toList = renL x y a o.toList := by
  cases a <;> cases o <;> rfl
theorem renL_of_not_mem {x y : Nat} {l : List Nat} (a : Bool) (h : x ∉ l) : renL x y a l = l := by
  cases a
  · rfl
  · exact map_sw_of_not_mem h

theorem disj_iff (a b : List Nat) : disj a b = true ↔ ∀ x ∈ a, x ∉ b := by simp [disj]

/-- a scope whose frame is disjoint from the names `vs` renames them like its surroundings -/
theorem renL_act (t : Sid) (x y : Nat) (a : Bool) (id : Sid) (fr vs : List Nat) (h : disj fr vs = true) :
    renL x y (act' t x a id fr) vs = renL x y a vs := by
  by_cases hx : x ∈ vs
  · have : x ∉ fr := fun hh => (disj_iff fr vs).mp h x hh hx
    simp [act', this]
  · rw [renL_of_not_mem _ hx, renL_of_not_mem _ hx]

/-! ### the invariant -/
/-- relation between the environment of the original and of the renamed program -/
def Rel (t : Sid) (x y : Nat) (active : Bool) (env env' : Env) : Prop :=
  if active then (∀ z, z ≠ y → lookup env' (sw x y z) = lookup env z) ∧ lookup env x = some t
  else (∀ z, z ≠ y → lookup env' z = lookup env z) ∧ lookup env x ≠ some t

theorem Rel.step {t : Sid} {x y : Nat} {active : Bool} {env env' : Env} (h : Rel t x y active env env') (id : Sid)
    (fr : List Nat) (hy : y ∉ fr) :
    Rel t x y (act' t x active id fr) ((id, fr) :: env) ((id, renL x y (act' t x active id fr) fr) :: env') := by
  unfold renL
  by_cases hxf : x ∈ fr
  · by_cases hid : id = t
    · -- the target scope: active from here on
      subst hid
      have ha : act' id x active id fr = true := by simp [act', hxf]
      rw [ha]; simp only [Rel, if_true]
      refine ⟨?_, by simp [lookup_cons, hxf]⟩
      intro z hz
      rw [lookup_cons, lookup_cons]
      by_cases hzf : z ∈ fr
      · rw [if_pos ((mem_map_sw hy hz).mpr hzf), if_pos hzf]
      · rw [if_neg (fun hh => hzf ((mem_map_sw hy hz).mp hh)), if_neg hzf]
        have hzx : z ≠ x := fun hh => hzf (hh ▸ hxf)
        cases active with
        | true => simp only [Rel, if_true] at h; exact h.1 z hz
        | false =>
          simp only [Rel, Bool.false_eq_true, if_false] at h
          rw [sw_ne hzx]; exact h.1 z hz
    · -- shadowed by another scope
      have ha : act' t x active id fr = false := by simp [act', hxf, hid]
      rw [ha]; simp only [Rel, Bool.false_eq_true, if_false]
      refine ⟨?_, by simp [lookup_cons, hxf, hid]⟩
      intro z hz
      rw [lookup_cons, lookup_cons]
      by_cases hzf : z ∈ fr
      · rw [if_pos hzf, if_pos hzf]
      · rw [if_neg hzf, if_neg hzf]
        have hzx : z ≠ x := fun hh => hzf (hh ▸ hxf)
        cases active with
        | true => simp only [Rel, if_true] at h; have := h.1 z hz; rwa [sw_ne hzx] at this
        | false => simp only [Rel, Bool.false_eq_true, if_false] at h; exact h.1 z hz
  · have ha : act' t x active id fr = active := by simp [act', hxf]
    rw [ha]
    cases active with
    | true =>
      simp only [Rel, if_true] at h ⊢
      refine ⟨?_, by rw [lookup_cons, if_neg hxf]; exact h.2⟩
      intro z hz
      rw [lookup_cons, lookup_cons]
      by_cases hzf : z ∈ fr
      · rw [if_pos ((mem_map_sw hy hz).mpr hzf), if_pos hzf]
      · rw [if_neg (fun hh => hzf ((mem_map_sw hy hz).mp hh)), if_neg hzf]
        exact h.1 z hz
    | false =>
      simp only [Rel, Bool.false_eq_true, if_false] at h ⊢
      refine ⟨?_, by rw [lookup_cons, if_neg hxf]; exact h.2⟩
      intro z hz
      rw [lookup_cons, lookup_cons]
      by_cases hzf : z ∈ fr
      · rw [if_pos hzf, if_pos hzf]
      · rw [if_neg hzf, if_neg hzf]; exact h.1 z hz

/-- one occurrence: its spelling is switched exactly when its binding is the renamed one -/
theorem entry_ok {t : Sid} {x y : Nat} {active : Bool} {env env' : Env} (h : Rel t x y active env env') (k : Occ)
    (z : Nat) (hz : z ≠ y) :
    (⟨k, renN x y active z, lookup env' (renN x y active z)⟩ : Entry) = swE t x y ⟨k, z, lookup env z⟩ := by
  unfold renN
  cases active with
  | true =>
    simp only [Rel, if_true] at h ⊢
    rw [h.1 z hz]
    by_cases hzx : z = x
    · subst hzx; simp [swE, h.2, sw_self]
    · simp [swE, hzx, sw_ne hzx]
  | false =>
    simp only [Rel, Bool.false_eq_true, if_false] at h ⊢
    rw [h.1 z hz]
    by_cases hzx : z = x
    · subst hzx; simp [swE, h.2]
    · simp [swE, hzx]

theorem declsIn_ren {t : Sid} {x y : Nat} {a : Bool} {env env' : Env} (h : Rel t x y a env env') (l : List Nat)
    (hl : ∀ p ∈ l, p ≠ y) : declsIn env' (renL x y a l) = (declsIn env l).map (swE t x y) := by
  induction l with
  | nil => rw [renL_nil]; rfl
  | cons p r ih =>
    rw [renL_cons]
    have := ih (fun q hq => hl q (List.mem_cons_of_mem _ hq))
    simp only [declsIn, List.map_cons] at this ⊢
    rw [this, entry_ok h .decl p (hl p List.mem_cons_self)]

/-! ### frames of the renamed program -/
theorem lets_ren (t : Sid) (x y : Nat) (a : Bool) : (b : Items) → (b.ren t x y a).lets = renL x y a b.lets
  | .nil => by cases a <;> rfl
  | .cons i r => by
    have ih := lets_ren t x y a r
    cases i <;> simp only [Items.ren, Item.ren, Items.lets, ih, renL_cons]

mutual
theorem Item.vars_ren (t : Sid) (x y : Nat) (a : Bool) (i : Item) (hwf : i.wf = true) :
    (i.ren t x y a).vars = renL x y a i.vars := by
  cases i with
  | ref z => simp only [Item.ren, Item.vars, renL_nil]
  | key z => simp only [Item.ren, Item.vars, renL_nil]
  | letDecl z => simp only [Item.ren, Item.vars, renL_nil]
  | varDecl z => simp only [Item.ren, Item.vars, renL_singleton]
  | func id nm ps b => simp only [Item.ren, Item.vars, renL_nil]
  | block id b =>
    simp only [Item.wf, Bool.and_eq_true] at hwf
    simp only [Item.ren, Item.vars]
    rw [Items.vars_ren t x y _ b hwf.2, renL_act _ _ _ _ _ _ _ hwf.1.2]
  | catchC id p b =>
    simp only [Item.wf, Bool.and_eq_true] at hwf
    simp only [Item.ren, Item.vars]
    rw [Items.vars_ren t x y _ b hwf.2, renL_act _ _ _ _ _ _ _ hwf.1.2]
  | forLet id z b =>
    simp only [Item.wf, Bool.and_eq_true] at hwf
    have hd := (disj_iff _ _).mp hwf.1.2
    have h1 : disj [z] b.vars = true := (disj_iff _ _).mpr fun w hw => hd w (by simp_all)
    have h2 : disj b.lets b.vars = true := (disj_iff _ _).mpr fun w hw => hd w (List.mem_cons_of_mem _ hw)
    simp only [Item.ren, Item.vars]
    rw [Items.vars_ren t x y _ b hwf.2, renL_act _ _ _ _ _ _ _ h2, renL_act _ _ _ _ _ _ _ h1]
theorem Items.vars_ren (t : Sid) (x y : Nat) (a : Bool) (is : Items) (hwf : is.wf = true) :
    (is.ren t x y a).vars = renL x y a is.vars := by
  cases is with
  | nil => simp only [Items.ren, Items.vars, renL_nil]
  | cons i r =>
    simp only [Items.wf, Bool.and_eq_true] at hwf
    simp only [Items.ren, Items.vars, renL_append]
    rw [Item.vars_ren t x y a i hwf.1, Items.vars_ren t x y a r hwf.2]
end

theorem funcFrame_ren (t : Sid) (x y : Nat) (a : Bool) (ps : List Nat) (b : Items) (hwf : b.wf = true) :
    funcFrame (renL x y a ps) (b.ren t x y a) = renL x y a (funcFrame ps b) := by
  simp only [funcFrame, lets_ren, Items.vars_ren t x y a b hwf, renL_append]

theorem catchFrame_ren (t : Sid) (x y : Nat) (a : Bool) (p : Option Nat) (b : Items) :
    catchFrame (renO x y a p) (b.ren t x y a) = renL x y a (catchFrame p b) := by
  simp only [catchFrame, lets_ren, toList_renO, renL_append]

/-! ### every declared name is a name of the program -/
theorem lets_sub_names : (b : Items) → ∀ z ∈ b.lets, z ∈ b.names
  | .nil => by intro z hz; simp [Items.lets] at hz
  | .cons i r => by
    have ih := lets_sub_names r
    intro z hz
    cases i <;> simp_all [Items.lets, Items.names, Item.names] <;> grind

mutual
theorem Item.vars_sub_names (i : Item) : ∀ z ∈ i.vars, z ∈ i.names := by
  cases i with
  | ref z => intro w hw; simp [Item.vars] at hw
  | key z => intro w hw; simp [Item.vars] at hw
  | letDecl z => intro w hw; simp [Item.vars] at hw
  | varDecl z => intro w hw; simpa [Item.vars, Item.names] using hw
  | func id nm ps b => intro w hw; simp [Item.vars] at hw
  | block id b => intro w hw; exact Items.vars_sub_names b w hw
  | catchC id p b =>
    intro w hw; simp only [Item.names, List.mem_append]; exact Or.inr (Items.vars_sub_names b w hw)
  | forLet id z b => intro w hw; exact List.mem_cons_of_mem _ (Items.vars_sub_names b w hw)
theorem Items.vars_sub_names (is : Items) : ∀ z ∈ is.vars, z ∈ is.names := by
  cases is with
  | nil => intro w hw; simp [Items.vars] at hw
  | cons i r =>
    intro w hw
    simp only [Items.vars, List.mem_append] at hw
    simp only [Items.names, List.mem_append]
    rcases hw with hw | hw
    · exact Or.inl (Item.vars_sub_names i w hw)
    · exact Or.inr (Items.vars_sub_names r w hw)
end

theorem funcFrame_fresh {y : Nat} {ps : List Nat} {b : Items} (hp : y ∉ ps) (hb : y ∉ b.names) :
    y ∉ funcFrame ps b := by
  intro hh
  simp only [funcFrame, List.mem_append] at hh
  rcases hh with (hh | hh) | hh
  · exact hp hh
  · exact hb (lets_sub_names b y hh)
  · exact hb (Items.vars_sub_names b y hh)

/-! ### the resolver commutes with the renaming -/
mutual
theorem Item.res_ren (t : Sid) (x y : Nat) (i : Item) (active : Bool) (env env' : Env)
    (h : Rel t x y active env env') (hwf : i.wf = true) (hy : y ∉ i.names) :
    (i.ren t x y active).res env' = (i.res env).map (swE t x y) := by
  cases i with
  | ref z =>
    have hz : z ≠ y := fun hh => hy (by simp [Item.names, hh])
    simp only [Item.ren, Item.res, List.map_cons, List.map_nil]
    rw [entry_ok h .ref z hz]
  | key z => simp [Item.ren, Item.res]
  | letDecl z =>
    have hz : z ≠ y := fun hh => hy (by simp [Item.names, hh])
    simp only [Item.ren, Item.res, List.map_cons, List.map_nil]
    rw [entry_ok h .decl z hz]
  | varDecl z =>
    have hz : z ≠ y := fun hh => hy (by simp [Item.names, hh])
    simp only [Item.ren, Item.res, List.map_cons, List.map_nil]
    rw [entry_ok h .decl z hz]
  | block id b =>
    simp only [Item.names] at hy
    simp only [Item.wf, Bool.and_eq_true] at hwf
    have hyl : y ∉ b.lets := fun hh => hy (lets_sub_names b y hh)
    have hs := h.step (.scope id) b.lets hyl
    simp only [Item.ren, Item.res, lets_ren]
    exact Items.res_ren t x y b _ _ _ hs hwf.2 hy
  | func id nm ps b =>
    simp only [Item.names, List.mem_append, not_or] at hy
    simp only [Item.wf, Bool.and_eq_true] at hwf
    have h1 := h.step (.head id) nm.toList hy.1
    have h2 := h1.step (.scope id) (funcFrame ps b) (funcFrame_fresh hy.2.1 hy.2.2)
    simp only [Item.ren, Item.res, List.map_append, toList_renO, funcFrame_ren t x y _ ps b hwf.2]
    rw [declsIn_ren h1 _ (fun p hp hh => hy.1 (hh ▸ hp)), declsIn_ren h2 _ (fun p hp hh => hy.2.1 (hh ▸ hp)),
      Items.res_ren t x y b _ _ _ h2 hwf.2 hy.2.2]
  | catchC id p b =>
    simp only [Item.names, List.mem_append, not_or] at hy
    simp only [Item.wf, Bool.and_eq_true] at hwf
    have hyf : y ∉ catchFrame p b := by
      intro hh
      simp only [catchFrame, List.mem_append] at hh
      rcases hh with hh | hh
      · exact hy.1 hh
      · exact hy.2 (lets_sub_names b y hh)
    have h1 := h.step (.scope id) (catchFrame p b) hyf
    simp only [Item.ren, Item.res, List.map_append, toList_renO, catchFrame_ren]
    rw [declsIn_ren h1 _ (fun q hq hh => hy.1 (hh ▸ hq)), Items.res_ren t x y b _ _ _ h1 hwf.2 hy.2]
  | forLet id z b =>
    simp only [Item.names, List.mem_cons, not_or] at hy
    simp only [Item.wf, Bool.and_eq_true] at hwf
    have hz : y ∉ [z] := by simpa using hy.1
    have h1 := h.step (.head id) [z] hz
    have h2 := h1.step (.scope id) b.lets (fun hh => hy.2 (lets_sub_names b y hh))
    simp only [Item.ren, Item.res, List.map_append, lets_ren, ← renL_singleton]
    rw [declsIn_ren h1 _ (fun q hq hh => hz (hh ▸ hq)), Items.res_ren t x y b _ _ _ h2 hwf.2 hy.2]
theorem Items.res_ren (t : Sid) (x y : Nat) (is : Items) (active : Bool) (env env' : Env)
    (h : Rel t x y active env env') (hwf : is.wf = true) (hy : y ∉ is.names) :
    (is.ren t x y active).res env' = (is.res env).map (swE t x y) := by
  cases is with
  | nil => simp [Items.ren, Items.res]
  | cons i r =>
    simp only [Items.names, List.mem_append, not_or] at hy
    simp only [Items.wf, Bool.and_eq_true] at hwf
    simp only [Items.ren, Items.res, List.map_append]
    rw [Item.res_ren t x y i active env env' h hwf.1 hy.1, Items.res_ren t x y r active env env' h hwf.2 hy.2]
end

-- names of resolved occurrences are names of the program
theorem declsIn_names (env : Env) (l : List Nat) : ∀ e ∈ declsIn env l, e.name ∈ l := by
  intro e he
  simp only [declsIn, List.mem_map] at he
  obtain ⟨p, hp, rfl⟩ := he
  exact hp

mutual
theorem Item.res_names (i : Item) (env : Env) : ∀ e ∈ i.res env, e.name ∈ i.names := by
  cases i with
  | ref z => intro e he; simp only [Item.res, List.mem_singleton] at he; subst he; simp [Item.names]
  | key z => intro e he; simp [Item.res] at he
  | letDecl z => intro e he; simp only [Item.res, List.mem_singleton] at he; subst he; simp [Item.names]
  | varDecl z => intro e he; simp only [Item.res, List.mem_singleton] at he; subst he; simp [Item.names]
  | block id b => intro e he; exact Items.res_names b _ e he
  | func id nm ps b =>
    intro e he
    simp only [Item.res, List.mem_append] at he
    simp only [Item.names, List.mem_append]
    rcases he with he | he | he
    · exact Or.inl (declsIn_names _ _ e he)
    · exact Or.inr (Or.inl (declsIn_names _ _ e he))
    · exact Or.inr (Or.inr (Items.res_names b _ e he))
  | catchC id p b =>
    intro e he
    simp only [Item.res, List.mem_append] at he
    simp only [Item.names, List.mem_append]
    rcases he with he | he
    · exact Or.inl (declsIn_names _ _ e he)
    · exact Or.inr (Items.res_names b _ e he)
  | forLet id z b =>
    intro e he
    simp only [Item.res, List.mem_append] at he
    simp only [Item.names, List.mem_cons]
    rcases he with he | he
    · exact Or.inl (by simpa using declsIn_names _ _ e he)
    · exact Or.inr (Items.res_names b _ e he)
theorem Items.res_names (is : Items) (env : Env) : ∀ e ∈ is.res env, e.name ∈ is.names := by
  cases is with
  | nil => intro e he; simp [Items.res] at he
  | cons i r =>
    intro e he
    simp only [Items.res, List.mem_append] at he
    simp only [Items.names, List.mem_append]
    rcases he with he | he
    · exact Or.inl (Item.res_names i env e he)
    · exact Or.inr (Items.res_names r env e he)
end

end DL.Scope2
