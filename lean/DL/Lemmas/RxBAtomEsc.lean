import DL.Lemmas.RxBOctal
import DL.Lemmas.RxSpecAtomEsc

/-! # Annex B (no `u` flag): class escapes, back references, group names, `AtomEscape[~U, N]` -/
namespace DL.Rx
open DL.RxSpec DL.Gen.Unicode

attribute [local irreducible] isScalar
variable {src : List Nat} {K : Bool × Nat}

theorem consumeCharacterClassEscape_wb (n : Nat) (r : List Nat) (s : St) (h : BAt src K r s) :
    Wp (consumeCharacterClassEscape n s) (fun b s1 => KeepN s s1 ∧
      if b = true then ∃ r1, BAt src K r1 s1 ∧ RxSpecB.CharacterClassEscape r r1 ∧ s1.lastIntValue = -1
      else BAt src K r s1) := by
  unfold consumeCharacterClassEscape
  rx6_auto
  all_goals (try rx6_false)
  all_goals (rx6_true; exact ⟨_, by rx6_at, ⟨_, rfl, by decide⟩, rfl⟩)

theorem consumeBackreference_wb (hN : K.2 < 2 ^ 62) (n : Nat) (r : List Nat) (s : St) (h : BAt src K r s) :
    Wp (consumeBackreference n s) (fun b s1 => Keep s s1 ∧
      if b = true then ∃ r1, BAt src K r1 s1 ∧ RxSpecB.AtomEscape K.1 K.2 r r1 Attr.nil else BAt src K r s1) := by
  unfold consumeBackreference
  rx6_auto
  all_goals (try rx6_false)
  rename_i s1 hk r1 v hat hde hv hle
  rx6_true
  rw [hv, hat.ncp] at hle
  exact ⟨r1, hat, RxSpecB.AtomEscape.decimal r r1 v hde (le_of_satI_le (N := K.2) hN hle)⟩

end DL.Rx
