import DL.Lemmas.RxBOctal
import DL.Lemmas.RxSpecAtomEsc
import DL.Lemmas.RxCompUni

/-! # Annex B (no `u` flag): class escapes, back references, group names, `AtomEscape[~U, N]` -/
namespace DL.Rx
open DL.RxSpec DL.Gen.Unicode

attribute [local irreducible] isScalar
variable {src : List Nat} {K : Bool × Nat}

theorem consumeCharacterClassEscape_wb (n : Nat) (r : List Nat) (s : St) (h : BAt src K r s) :
    Wp (consumeCharacterClassEscape n s) (fun b s1 => KeepN s s1 ∧
      if b = true then ∃ r1, BAt src K r1 s1 ∧ RxSpecB.CharacterClassEscape r r1 ∧ s1.lastIntValue = -1
      else BAt src K r s1 ∧ ¬∃ r', RxSpecB.CharacterClassEscape r r') := by
  unfold consumeCharacterClassEscape
  rx6_auto
  all_goals (try (rx6_true; exact ⟨_, by rx6_at, ⟨_, rfl, by decide⟩, rfl⟩))
  rx6_falsen
  rename_i h1 h2 h3 h4 h5 h6
  rintro ⟨r', x, e, hx⟩
  subst e
  simp only [List.mem_cons, List.not_mem_nil, or_false] at hx
  rcases hx with e | e | e | e | e | e <;> subst e
  · exact h1 rfl
  · exact h2 rfl
  · exact h3 rfl
  · exact h4 rfl
  · exact h5 rfl
  · exact h6 rfl

theorem decimalEscape_unique {i r r' : List Nat} {v v' : Nat} (h : DecimalEscape i r v) (h' : DecimalEscape i r' v') :
    r = r' ∧ v = v' := by
  obtain ⟨ds, e, _, hds, hstop, hv⟩ := h
  obtain ⟨ds', e', _, hds', hstop', hv'⟩ := h'
  rw [e] at e'
  obtain ⟨e1, e2⟩ := run_unique e' hds hds' hstop hstop'
  subst e1 e2
  exact ⟨rfl, by rw [hv, hv']⟩

theorem consumeBackreference_wb (hN : K.2 < 2 ^ 62) (n : Nat) (r : List Nat) (s : St) (h : BAt src K r s) :
    Wp (consumeBackreference n s) (fun b s1 => Keep s s1 ∧
      if b = true then ∃ r1, BAt src K r1 s1 ∧ RxSpecB.AtomEscape K.1 K.2 r r1 Attr.nil
      else BAt src K r s1 ∧ ¬∃ r' v', DecimalEscape r r' v' ∧ v' ≤ K.2) := by
  unfold consumeBackreference
  rx6_auto
  · rx6_falsen
    rename_i hno
    rintro ⟨r', v', ⟨ds, e, ⟨d, ds', e2, hnz⟩, _⟩, _⟩
    subst e e2
    exact hno d rfl hnz
  · rx6_falsen
    rename_i s1 hk r1 v hat hde hv hn _
    rintro ⟨r', v', hde', hle⟩
    obtain ⟨_, e⟩ := decimalEscape_unique hde hde'
    subst e
    apply hn
    rw [hv, hat.ncp]
    have : satI v ≤ (v : Int) := by unfold satI; split <;> omega
    omega
  · rename_i s1 hk r1 v hat hde hv hle
    rx6_true
    rw [hv, hat.ncp] at hle
    exact ⟨r1, hat, RxSpecB.AtomEscape.decimal r r1 v hde (le_of_satI_le (N := K.2) hN hle)⟩

end DL.Rx
