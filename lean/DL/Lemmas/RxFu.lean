import DL.Model.Regex

/-!
# Fuel adequacy of the validator: the progress logic

`A E i ne s`: the reader's `end` is `E`, the look-ahead buffer does not reach beyond it
(`index + cps.len() ≤ end`), the position is at least `i`, and (if `ne`) the look-ahead buffer is non-empty.
`Fu E i ne m Q`: started in such a state, `m` does not run out of fuel, and on `ok a` the position is at least `Q a`
(`err` and `panic` outcomes carry no obligation: the former ends the validation, the latter is excluded by
`C12NoPanic`).
-/
namespace DL.Rx

structure A (E i : Nat) (ne : Bool) (s : St) : Prop where
  end_ : s.reader.end_ = E
  look : s.reader.index + s.reader.cps.length ≤ E
  pos : i ≤ s.reader.index
  nonempty : ne = true → s.reader.cps ≠ []

def Post (E : Nat) {α : Type} (Q : α → Nat) : Res α → Prop
  | .ok a s => A E (Q a) false s
  | .outOfFuel _ => False
  | _ => True

def Fu (E i : Nat) (ne : Bool) {α : Type} (m : M α) (Q : α → Nat) : Prop :=
  ∀ s, A E i ne s → Post E Q (m s)

variable {E : Nat} {α β : Type}

theorem A.weaken {i j : Nat} {ne : Bool} {s : St} (h : A E i ne s) (hj : j ≤ i) : A E j false s :=
  ⟨h.end_, h.look, Nat.le_trans hj h.pos, fun h => nomatch h⟩

theorem A.le {i : Nat} {ne : Bool} {s : St} (h : A E i ne s) : i ≤ E :=
  Nat.le_trans h.pos (Nat.le_trans (Nat.le_add_right _ _) h.look)

/-! ### rules (the same continuation-passing shape as for `Ind`) -/

theorem Fu.pure {i : Nat} {ne : Bool} {Q : α → Nat} {a : α} (h : Q a ≤ i) : Fu E i ne (pure a : M α) Q :=
  fun _ hs => hs.weaken h

theorem Fu.bind {i : Nat} {ne : Bool} {R : α → Nat} {Q : β → Nat} {m : M α} {f : α → M β}
    (hm : Fu E i ne m R) (hf : ∀ a, Fu E (R a) false (f a) Q) : Fu E i ne (m >>= f) Q := by
  intro s hs
  have h1 := hm s hs
  show Post E Q (M.bind m f s)
  unfold M.bind
  cases h : m s with
  | ok a s' => rw [h] at h1; exact hf a s' h1
  | err _ _ => trivial
  | panic _ _ => trivial
  | outOfFuel _ => rw [h] at h1; exact h1

theorem Fu.pre {i j : Nat} {ne : Bool} {Q : α → Nat} {m : M α} (h : Fu E j false m Q) (hj : j ≤ i) :
    Fu E i ne m Q := fun s hs => h s (hs.weaken hj)

theorem Fu.post {i : Nat} {ne : Bool} {Q Q' : α → Nat} {m : M α} (h : Fu E i ne m Q) (hq : ∀ a, Q' a ≤ Q a) :
    Fu E i ne m Q' := by
  intro s hs
  have h1 := h s hs
  cases h2 : m s with
  | ok a s' => rw [h2] at h1; exact h1.weaken (hq a)
  | err _ _ => trivial
  | panic _ _ => trivial
  | outOfFuel _ => rw [h2] at h1; exact h1

/-- the position bound is at most `E`; makes `i ≤ E` available to arithmetic side conditions -/
theorem Fu.le {i : Nat} {ne : Bool} {Q : α → Nat} {m : M α} (h : i ≤ E → Fu E i ne m Q) : Fu E i ne m Q :=
  fun s hs => h hs.le s hs

theorem Fu.ite {i : Nat} {ne : Bool} {Q : α → Nat} {p : Prop} [Decidable p] {a b : M α}
    (ha : p → Fu E i ne a Q) (hb : ¬p → Fu E i ne b Q) : Fu E i ne (if p then a else b) Q := by
  by_cases h : p
  · rw [if_pos h]; exact ha h
  · rw [if_neg h]; exact hb h

theorem Fu.fail {i : Nat} {ne : Bool} {Q : α → Nat} {msg : String} : Fu E i ne (fail msg : M α) Q := fun _ _ => trivial
theorem Fu.rustPanic {i : Nat} {ne : Bool} {Q : α → Nat} {why : String} : Fu E i ne (rustPanic why : M α) Q :=
  fun _ _ => trivial

end DL.Rx
