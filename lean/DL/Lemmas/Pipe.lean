import DL.Model.Pipe

/-! Helper lemmas about M-PIPE (no property statements here). -/
namespace DL.Pipe

/-! ### the directives never change; only marks are added -/
@[simp] theorem mark_file (st : St) (k c) : (st.mark k c).file = st.file := rfl
@[simp] theorem mark_lines (st : St) (k c) : (st.mark k c).lines = st.lines := rfl
@[simp] theorem mark_marks (st : St) (k c) : (st.mark k c).marks = (k, c) :: st.marks := rfl

theorem fileNames_congr {a b : St} (h : a.file = b.file) (c : String) : fileNames a c = fileNames b c := by
  unfold fileNames; rw [h]
theorem lineNamesAt_congr {a b : St} (h : a.lines = b.lines) (k : Nat) (c : String) :
    lineNamesAt a k c = lineNamesAt b k c := by
  unfold lineNamesAt; rw [h]

/-- the directive a diagnostic hits, if any: the file-level one first, else the one on the previous line -/
def hits (st : St) (d : Diag) : Option (DirKey × String) :=
  if fileNames st d.code then some (none, d.code) else
  match d.pos with
  | none => none
  | some (_, line) =>
    if line > 0 && lineNamesAt st (line - 1) d.code then some (some (line - 1), d.code) else none

/-- the suppression predicate of the property: the file directive names the code, or the diagnostic has a range
starting on line `ℓ > 0` and the directive on line `ℓ-1` names the code -/
def suppressed (st : St) (d : Diag) : Bool :=
  fileNames st d.code ||
  match d.pos with
  | none => false
  | some (_, line) => line > 0 && lineNamesAt st (line - 1) d.code

theorem suppressed_iff_hits (st : St) (d : Diag) : suppressed st d = (hits st d).isSome := by
  unfold suppressed hits
  cases fileNames st d.code
  · simp only [Bool.false_or, Bool.false_eq_true, if_false]
    cases d.pos with
    | none => rfl
    | some p => obtain ⟨s, l⟩ := p; simp only; split <;> simp_all
  · simp

theorem stepUsage_eq (st : St) (d : Diag) :
    stepUsage st d = match hits st d with
      | some m => (st.mark m.1 m.2, false)
      | none => (st, true) := by
  unfold stepUsage hits stepLine
  cases fileNames st d.code
  · simp only [Bool.false_eq_true, if_false]
    cases d.pos with
    | none => rfl
    | some p =>
      obtain ⟨s, l⟩ := p
      simp only
      by_cases hl : l > 0
      · cases hn : lineNamesAt st (l - 1) d.code <;> simp [hl, hn]
      · simp [hl]
  · simp

@[simp] theorem stepUsage_file (st : St) (d : Diag) : (stepUsage st d).1.file = st.file := by
  rw [stepUsage_eq]; cases hits st d <;> rfl
@[simp] theorem stepUsage_lines (st : St) (d : Diag) : (stepUsage st d).1.lines = st.lines := by
  rw [stepUsage_eq]; cases hits st d <;> rfl

theorem stepUsage_keep (st : St) (d : Diag) : (stepUsage st d).2 = !suppressed st d := by
  rw [stepUsage_eq, suppressed_iff_hits]; cases hits st d <;> rfl

theorem hits_congr {a b : St} (hf : a.file = b.file) (hl : a.lines = b.lines) (d : Diag) : hits a d = hits b d := by
  unfold hits; rw [fileNames_congr hf]
  cases d.pos with
  | none => rfl
  | some p => simp only [lineNamesAt_congr hl]

theorem suppressed_congr {a b : St} (hf : a.file = b.file) (hl : a.lines = b.lines) (d : Diag) :
    suppressed a d = suppressed b d := by
  rw [suppressed_iff_hits, suppressed_iff_hits, hits_congr hf hl]

@[simp] theorem checkUsage_file (st : St) (raw : List Diag) : (checkUsage st raw).1.file = st.file := by
  induction raw generalizing st with
  | nil => rfl
  | cons d ds ih => simp [checkUsage, ih]
@[simp] theorem checkUsage_lines (st : St) (raw : List Diag) : (checkUsage st raw).1.lines = st.lines := by
  induction raw generalizing st with
  | nil => rfl
  | cons d ds ih => simp [checkUsage, ih]

/-- `check_ignore_directive_usage` keeps exactly the unsuppressed diagnostics, in order -/
theorem checkUsage_kept (st : St) (raw : List Diag) :
    (checkUsage st raw).2 = raw.filter (fun d => !suppressed st d) := by
  induction raw generalizing st with
  | nil => rfl
  | cons d ds ih =>
    simp only [checkUsage, List.filter_cons, stepUsage_keep]
    rw [ih]
    have : (fun x => !suppressed (stepUsage st d).1 x) = (fun x => !suppressed st x) := by
      funext x; rw [suppressed_congr (stepUsage_file st d) (stepUsage_lines st d)]
    rw [this]

/-- the marks after the filter pass: the old ones plus one for every hit -/
theorem mem_marks_checkUsage (st : St) (raw : List Diag) (m : DirKey × String) :
    m ∈ (checkUsage st raw).1.marks ↔ m ∈ st.marks ∨ ∃ d ∈ raw, hits st d = some m := by
  induction raw generalizing st with
  | nil => simp [checkUsage]
  | cons d ds ih =>
    simp only [checkUsage]
    rw [ih]
    have hc : ∀ x, hits (stepUsage st d).1 x = hits st x :=
      fun x => hits_congr (stepUsage_file st d) (stepUsage_lines st d) x
    simp only [hc, List.mem_cons, exists_eq_or_imp]
    rw [stepUsage_eq]
    cases hh : hits st d with
    | none => simp
    | some m' =>
      obtain ⟨k', c'⟩ := m'
      simp only [mark_marks, List.mem_cons, Option.some.injEq]
      constructor
      · rintro ((h | h) | h)
        · exact Or.inr (Or.inl h.symm)
        · exact Or.inl h
        · exact Or.inr (Or.inr h)
      · rintro (h | h | h)
        · exact Or.inl (Or.inr h)
        · exact Or.inl (Or.inl h.symm)
        · exact Or.inr h

/-! ### the comparator is a total preorder -/
theorem diagLe_trans (a b c : Diag) (h1 : diagLe a b = true) (h2 : diagLe b c = true) : diagLe a c = true := by
  unfold diagLe at *
  rcases ha : a.pos with _ | ⟨x, lx⟩ <;> rcases hb : b.pos with _ | ⟨y, ly⟩ <;> rcases hc : c.pos with _ | ⟨z, lz⟩ <;>
    simp_all
  · exact String.le_trans h1 h2
  · rcases h1 with h1 | ⟨h1, h1'⟩ <;> rcases h2 with h2 | ⟨h2, h2'⟩
    · left; omega
    · left; omega
    · left; omega
    · right; exact ⟨by omega, String.le_trans h1' h2'⟩

theorem diagLe_total (a b : Diag) : (diagLe a b || diagLe b a) = true := by
  unfold diagLe
  rcases ha : a.pos with _ | ⟨x, lx⟩ <;> rcases hb : b.pos with _ | ⟨y, ly⟩ <;> simp
  · exact String.le_total _ _
  · rcases Nat.lt_trichotomy x y with h | h | h
    · left; left; exact h
    · rcases String.le_total a.code b.code with h' | h'
      · left; right; exact ⟨h, h'⟩
      · right; right; exact ⟨h.symm, h'⟩
    · right; left; exact h

/-! ### the accounting output -/
theorem mem_dirDiags {code : String} {mk : String → Payload} {d : Dir} {p : String → Bool} {x : Diag} :
    x ∈ dirDiags code mk p d ↔ ∃ c ∈ d.codes, p c = true ∧ x = { code := code, pos := some (d.start, d.line), payload := mk c } := by
  simp only [dirDiags, List.mem_map, List.mem_mergeSort, List.mem_filter]
  constructor
  · rintro ⟨c, ⟨h1, h2⟩, rfl⟩; exact ⟨c, h1, h2, rfl⟩
  · rintro ⟨c, h1, h2, rfl⟩; exact ⟨c, ⟨h1, h2⟩, rfl⟩

theorem mem_allDirDiags_iff {code : String} {mk : String → Payload} {p : DirKey → String → Bool} {st : St} {x : Diag} :
    x ∈ allDirDiags code mk p st ↔
      (∃ f, st.file = some f ∧ ∃ c ∈ f.codes, p none c = true ∧
          x = { code := code, pos := some (f.start, f.line), payload := mk c }) ∨
      (∃ kd ∈ st.lines, ∃ c ∈ kd.2.codes, p (some kd.1) c = true ∧
          x = { code := code, pos := some (kd.2.start, kd.2.line), payload := mk c }) := by
  unfold allDirDiags
  rw [List.mem_append, List.mem_flatMap]
  constructor
  · rintro (h | ⟨kd, hk, h⟩)
    · cases hf : st.file with
      | none => simp [hf] at h
      | some f => simp only [hf] at h; exact Or.inl ⟨f, rfl, mem_dirDiags.mp h⟩
    · exact Or.inr ⟨kd, hk, mem_dirDiags.mp h⟩
  · rintro (⟨f, hf, h⟩ | ⟨kd, hk, h⟩)
    · left; simp only [hf]; exact mem_dirDiags.mpr h
    · exact Or.inr ⟨kd, hk, mem_dirDiags.mpr h⟩

theorem mem_allDirDiags {code : String} {mk : String → Payload} {p : DirKey → String → Bool} {st : St} {x : Diag}
    (h : x ∈ allDirDiags code mk p st) : x.code = code ∧ ∃ c, x.payload = mk c := by
  rcases mem_allDirDiags_iff.mp h with ⟨f, _, c, _, _, rfl⟩ | ⟨kd, _, c, _, _, rfl⟩ <;> exact ⟨rfl, _, rfl⟩

@[simp] theorem markFile_file (st : St) (c : String) : (markFile st c).file = st.file := by
  unfold markFile; split <;> rfl
@[simp] theorem markFile_lines (st : St) (c : String) : (markFile st c).lines = st.lines := by
  unfold markFile; split <;> rfl

theorem banUnknown_snd (a : List String) (cu : Bool) (st : St) :
    (banUnknown a cu st).2 =
      if (cu && !fileNames st cUnknown) = true then allDirDiags cUnknown .unknown (unknownP a) st else [] := by
  unfold banUnknown
  dsimp only
  have : fileNames (if (allDirDiags cUnknown Payload.unknown (unknownP a) st).isEmpty = true then st
      else markFile st cUnknown) cUnknown = fileNames st cUnknown := by
    split
    · rfl
    · exact fileNames_congr (markFile_file st cUnknown) cUnknown
  rw [this]

theorem banUnknown_code {allRules : List String} {cu : Bool} {st : St} {x : Diag}
    (h : x ∈ (banUnknown allRules cu st).2) : x.code = cUnknown ∧ cu = true ∧ ∃ c, x.payload = .unknown c := by
  rw [banUnknown_snd] at h
  by_cases hc : (cu && !fileNames st cUnknown) = true
  · rw [if_pos hc] at h
    simp only [Bool.and_eq_true] at hc
    exact ⟨(mem_allDirDiags h).1, hc.1, (mem_allDirDiags h).2⟩
  · rw [if_neg hc] at h; cases h

theorem banUnused_code {enabled : List String} {st : St} {x : Diag}
    (h : x ∈ banUnused enabled st) : x.code = cUnused ∧ ∃ c, x.payload = .unused c := by
  unfold banUnused at h
  split at h
  · cases h
  · exact mem_allDirDiags h

@[simp] theorem banUnknown_file (a : List String) (cu : Bool) (st : St) : (banUnknown a cu st).1.file = st.file := by
  unfold banUnknown; dsimp only; split <;> simp
@[simp] theorem banUnknown_lines (a : List String) (cu : Bool) (st : St) : (banUnknown a cu st).1.lines = st.lines := by
  unfold banUnknown; dsimp only; split <;> simp

end DL.Pipe
