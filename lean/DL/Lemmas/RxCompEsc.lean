import DL.Lemmas.RxCompUni
import DL.Lemmas.RxSpecEsc1

/-! # Completeness: `DecimalEscape` and back references (u-mode) -/
namespace DL.Rx
open DL.RxSpec

attribute [local irreducible] isScalar
variable {src : List Nat} {N : Nat}

theorem eatDecimalEscapeLoop_wc (n : Nat) (ds r1 : List Nat) (s : St) (h : UAt src N (ds ++ r1) s)
    (hds : ∀ d ∈ ds, DecimalDigit d) (hstop : ∀ d, r1.head? = some d → ¬DecimalDigit d) :
    Wc (eatDecimalEscapeLoop n s) (fun _ s1 => UAt src N r1 s1 ∧
      s1 = (s.setPos src (s.reader.index + ds.length)).withInt (accDec s.lastIntValue ds)) := by
  refine (Wc.of_wp (eatDecimalEscapeLoop_wp n _ s h) (NE.eatDecimalEscapeLoop n)).mono ?_
  rintro _ s1 ⟨ds', r1', he, hds', hstop', hat, hs1⟩
  obtain ⟨e1, e2⟩ := run_unique he hds hds' hstop hstop'
  subst e1 e2
  exact ⟨hat, hs1⟩

theorem nonZero_isAsciiDigit {d : Nat} (h : NonZeroDigit d) : (isAsciiDigit d && d != ch '0') = true := by
  have h' : 0x31 ≤ d ∧ d ≤ 0x39 := h
  have hd : DecimalDigit d := by show 0x30 ≤ d ∧ d ≤ 0x39; omega
  rw [isAsciiDigit_of_decimalDigit hd]
  have : d ≠ ch '0' := by show d ≠ 0x30; omega
  simpa using this

theorem eatDecimalEscape_wc (n : Nat) (r r1 : List Nat) (v : Nat) (s : St) (h : UAt src N r s)
    (hD : DecimalEscape r r1 v) :
    Wc (eatDecimalEscape n s) (fun b s1 => b = true ∧ UAt src N r1 s1 ∧ s1.lastIntValue = satI v ∧ Keep s s1) := by
  obtain ⟨ds, hr, ⟨d, ds', hds, hnz⟩, hall, hstop, hv⟩ := hD
  subst hds hr hv
  have hloop := fun s h => eatDecimalEscapeLoop_wc (src := src) (N := N) n ds' r1 s h
    (fun x hx => hall x (by simp [hx])) hstop
  have hdd : DecimalDigit d := hall d (by simp)
  have hx := isAsciiDigit_of_decimalDigit hdd
  unfold eatDecimalEscape
  rx5_auto
  case neg => rename_i hn; exact absurd (nonZero_isAsciiDigit hnz) hn
  rename_i hc d' hd
  rw [toDigit10_eq hx] at hd
  cases hd
  have hle := decVal_le hdd
  refine Wc.bind_checkedI64 (by
    show i64Min ≤ 10 * (0 : Int) + (decVal d : Int) ∧ 10 * (0 : Int) + (decVal d : Int) ≤ i64Max
    unfold i64Min i64Max; omega) ?_
  rx5_auto
  rename_i s1 hat hs1
  subst hs1
  refine ⟨rfl, hat, ?_, ⟨rfl, rfl, rfl⟩⟩
  st_norm
  show accDec (10 * (0 : Int) + (decVal d : Int)) ds' = satI (mvDec (d :: ds'))
  have : (10 * (0 : Int) + (decVal d : Int)) = satI (decVal d) := by
    unfold satI i64Max; rw [if_pos (by omega)]; omega
  rw [this, accDec_satI]
  show satI _ = satI (List.foldl _ (10 * 0 + decVal d) ds')
  rw [Nat.mul_zero, Nat.zero_add]

theorem eatDecimalEscape_wcn (n : Nat) (r : List Nat) (s : St) (h : UAt src N r s)
    (hn : ∀ d, r.head? = some d → ¬NonZeroDigit d) :
    Wc (eatDecimalEscape n s) (fun b s1 => b = false ∧ s1 = s.withInt 0) := by
  unfold eatDecimalEscape
  rx5_auto
  all_goals (try exact ⟨rfl, rfl⟩)
  rename_i x r' hc _ _
  exfalso
  have hx : isAsciiDigit x = true := (Bool.and_eq_true _ _ |>.mp hc).1
  have hx0 : x ≠ ch '0' := by
    have := (Bool.and_eq_true _ _ |>.mp hc).2
    simpa using this
  have h' : 0x30 ≤ x ∧ x ≤ 0x39 := decimalDigit_of_isAsciiDigit hx
  have : x ≠ 0x30 := hx0
  exact hn x rfl (by show 0x31 ≤ x ∧ x ≤ 0x39; omega)

theorem consumeBackreference_wc (n : Nat) (r r1 : List Nat) (v : Nat) (s : St) (h : UAt src N r s)
    (hD : DecimalEscape r r1 v) (hv : v ≤ N) :
    Wc (consumeBackreference n s) (fun b s1 => b = true ∧ UAt src N r1 s1 ∧ Keep s s1) := by
  unfold consumeBackreference
  rx5_auto
  case pos => rx5_fin
  rename_i hn
  have hat := ‹UAt src N r1 _›
  have hv1 := ‹_ = satI v›
  apply hn
  rw [hv1, hat.ncp]
  have : satI v ≤ (v : Int) := by unfold satI; split <;> omega
  omega

theorem consumeBackreference_wcn (n : Nat) (r : List Nat) (s : St) (h : UAt src N r s)
    (hn : ∀ d, r.head? = some d → ¬NonZeroDigit d) :
    Wc (consumeBackreference n s) (fun b s1 => b = false ∧ s1 = s.withInt 0) := by
  unfold consumeBackreference
  rx5_auto
  exact ⟨rfl, ‹_ = s.withInt 0›⟩

end DL.Rx
