import DL.Lemmas.RxBName

/-! # Annex B (no `u` flag): `RegExpIdentifierName`, `GroupName` (copies of the `UAt` proofs) -/
namespace DL.Rx
open DL.RxSpec DL.Gen.Unicode
attribute [local irreducible] isScalar
variable {src : List Nat} {K : Bool × Nat}

theorem part_valueB {r r1 : List Nat} {x : Nat} (h : RxSpecB.RegExpIdentifierPart r r1 x) : IdentifierPartChar x := by
  cases h with
  | char x r h => exact h
  | escape m r v _ h => exact h
  | pair i r v _ h => exact h

theorem start_valueB {r r1 : List Nat} {x : Nat} (h : RxSpecB.RegExpIdentifierStart r r1 x) : IdentifierStartChar x := by
  cases h with
  | char x r h => exact h
  | escape m r v _ h => exact h
  | pair i r v _ h => exact h

/-- a sequence of `RegExpIdentifierPart`s with the code points they denote -/
inductive PartsRunB : List Nat → List Nat → List Nat → Prop
  | nil (r : List Nat) : PartsRunB r r []
  | cons (r m r1 : List Nat) (x : Nat) (xs : List Nat) : RxSpecB.RegExpIdentifierPart r m x → PartsRunB m r1 xs →
      PartsRunB r r1 (x :: xs)

theorem name_appendB {r m r1 : List Nat} {nm xs : List Nat} (h1 : RxSpecB.RegExpIdentifierName r m nm) (h2 : PartsRunB m r1 xs) :
    RxSpecB.RegExpIdentifierName r r1 (nm ++ xs) := by
  induction h2 generalizing nm with
  | nil r => rw [List.append_nil]; exact h1
  | cons r' m' r1' x xs hp _ ih =>
    have := ih (RxSpecB.RegExpIdentifierName.part r r' m' nm x h1 hp)
    rw [List.append_assoc] at this; exact this

theorem eatRegexpIdentifierNameLoop_wb : ∀ (n : Nat) (r : List Nat) (s : St), BAt src K r s →
    Wp (eatRegexpIdentifierNameLoop n s) (fun _ s1 => KeepN s s1 ∧ ∃ xs r1, PartsRunB r r1 xs ∧ BAt src K r1 s1 ∧
      s1.lastStrValue = s.lastStrValue ++ xs)
  | 0, _, _, _ => Wp.outOfFuel
  | n + 1, r, s, h => by
    have ih := eatRegexpIdentifierNameLoop_wb n
    unfold eatRegexpIdentifierNameLoop
    rx6_auto
    · rename_i s1 hk hat1
      exact ⟨hk.toN, [], r, PartsRunB.nil r, hat1, by rw [hk.str, List.append_nil]⟩
    · rename_i s1 hk r1 x hat1 hpart hv c hc _ s2 hk2 xs r2 hrun hat2 hstr
      have hpc := identifierPartChar_char (part_valueB hpart)
      rw [hv, i64AsU32_small hpc.2, hpc.1] at hc
      cases hc
      refine ⟨⟨hk2.gn.trans hk.gn, hk2.bn.trans hk.bn⟩, x :: xs, r2, PartsRunB.cons r r1 r2 x xs hpart hrun, hat2, ?_⟩
      rw [hstr]
      show (s1.lastStrValue ++ [x]) ++ xs = _
      rw [hk.str, List.append_assoc]; rfl

theorem eatRegexpIdentifierName_wb (n : Nat) (r : List Nat) (s : St) (h : BAt src K r s) :
    Wp (eatRegexpIdentifierName n s) (fun b s1 => KeepN s s1 ∧
      if b = true then ∃ r1 nm, BAt src K r1 s1 ∧ RxSpecB.RegExpIdentifierName r r1 nm ∧ s1.lastStrValue = nm
      else BAt src K r s1) := by
  unfold eatRegexpIdentifierName
  rx6_auto
  all_goals (try rx6_false)
  rename_i s1 hk r1 x hat1 hstart hv c hc _ s2 hk2 xs r2 hrun hat2 hstr
  have hpc := identifierPartChar_char (identifierStartChar_part (start_valueB hstart))
  rw [hv, i64AsU32_small hpc.2, hpc.1] at hc
  cases hc
  refine ⟨⟨hk2.gn.trans hk.gn, hk2.bn.trans hk.bn⟩, ?_⟩
  rw [if_pos rfl]
  exact ⟨r2, [x] ++ xs, hat2, name_appendB (RxSpecB.RegExpIdentifierName.start r r1 x hstart) hrun, hstr⟩

theorem eatGroupName_wb (n : Nat) (r : List Nat) (s : St) (h : BAt src K r s) :
    Wp (eatGroupName n s) (fun b s1 => KeepN s s1 ∧
      if b = true then ∃ r1 nm, BAt src K r1 s1 ∧ RxSpecB.GroupName r r1 nm ∧ s1.lastStrValue = nm
      else BAt src K r s1) := by
  unfold eatGroupName
  rx6_auto
  all_goals (try rx6_false)
  rename_i m hat0 s1 hk nm hstr r1 hat1 hat2 hname
  rx6_true
  exact ⟨r1, nm, by rx6_at, ⟨m, rfl, hname⟩, hstr⟩

end DL.Rx
