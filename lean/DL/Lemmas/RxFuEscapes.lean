import DL.Lemmas.RxFuLeaves2

/-! # Fuel adequacy: names, escapes, classes, quantifiers, atoms -/
namespace DL.Rx
attribute [local irreducible] isScalar
variable {E : Nat}

theorem F.eatRegexpIdentifierPart (i : Nat) {ne : Bool} (n : Nat) (hn : E - i + 1 ≤ n) :
    Fu E i ne (eatRegexpIdentifierPart n) (fun b => i + b.toNat) := by
  unfold DL.Rx.eatRegexpIdentifierPart
  rx3_step
  rx3_step
  rx3_step
  rename_i cp0
  cases cp0 <;> rx3_auto

theorem F.eatRegexpIdentifierNameLoop : ∀ (n i : Nat) (ne : Bool), E - i + 2 ≤ n → Fu E i ne (eatRegexpIdentifierNameLoop n) (fun _ => i)
  | 0, i, _, hn => by exfalso; omega
  | n + 1, i, ne, hn => by
    have ih := F.eatRegexpIdentifierNameLoop n
    unfold DL.Rx.eatRegexpIdentifierNameLoop; rx3_auto

theorem F.eatRegexpIdentifierName (i : Nat) {ne : Bool} (n : Nat) (hn : E - i + 2 ≤ n) : Fu E i ne (eatRegexpIdentifierName n) (fun _ => i) := by
  unfold DL.Rx.eatRegexpIdentifierName; rx3_auto

theorem F.eatGroupName (i : Nat) {ne : Bool} (n : Nat) (hn : E - i + 2 ≤ n) : Fu E i ne (eatGroupName n) (fun _ => i) := by
  unfold DL.Rx.eatGroupName; rx3_auto

theorem F.consumeKGroupName (i : Nat) {ne : Bool} (n : Nat) (hn : E - i + 2 ≤ n) : Fu E i ne (consumeKGroupName n) (fun _ => i) := by
  unfold DL.Rx.consumeKGroupName; rx3_auto

theorem F.consumeCharacterEscape (i : Nat) {ne : Bool} (n : Nat) (hn : E - i + 1 ≤ n) : Fu E i ne (consumeCharacterEscape n) (fun _ => i) := by
  unfold DL.Rx.consumeCharacterEscape; rx3_auto

theorem F.consumeCharacterClassEscape (i : Nat) {ne : Bool} (n : Nat) (hn : E - i + 1 ≤ n) : Fu E i ne (consumeCharacterClassEscape n) (fun _ => i) := by
  unfold DL.Rx.consumeCharacterClassEscape; rx3_auto

theorem F.consumeBackreference (i : Nat) {ne : Bool} (n : Nat) (hn : E - i + 1 ≤ n) : Fu E i ne (consumeBackreference n) (fun _ => i) := by
  unfold DL.Rx.consumeBackreference; rx3_auto

theorem F.consumeAtomEscape (i : Nat) {ne : Bool} (n : Nat) (hn : E - i + 2 ≤ n) : Fu E i ne (consumeAtomEscape n) (fun _ => i) := by
  unfold DL.Rx.consumeAtomEscape; rx3_auto

theorem F.consumeClassEscape (i : Nat) {ne : Bool} (n : Nat) (hn : E - i + 1 ≤ n) : Fu E i ne (consumeClassEscape n) (fun _ => i) := by
  unfold DL.Rx.consumeClassEscape; rx3_auto

theorem F.consumeClassAtom (i : Nat) {ne : Bool} (n : Nat) (hn : E - i + 1 ≤ n) : Fu E i ne (consumeClassAtom n) (fun b => i + b.toNat) := by
  unfold DL.Rx.consumeClassAtom; rx3_auto

theorem F.consumeClassRanges : ∀ (n i : Nat) (ne : Bool), E - i + 2 ≤ n → Fu E i ne (consumeClassRanges n) (fun _ => i)
  | 0, i, _, hn => by exfalso; omega
  | n + 1, i, ne, hn => by
    have ih := F.consumeClassRanges n
    unfold DL.Rx.consumeClassRanges; rx3_auto

theorem F.consumeCharacterClass (i : Nat) {ne : Bool} (n : Nat) (hn : E - i + 2 ≤ n) : Fu E i ne (consumeCharacterClass n) (fun b => i + b.toNat) := by
  unfold DL.Rx.consumeCharacterClass; rx3_auto

theorem F.eatBracedQuantifier (i : Nat) {ne : Bool} (n : Nat) (b : Bool) (hn : E - i + 1 ≤ n) : Fu E i ne (eatBracedQuantifier n b) (fun _ => i) := by
  unfold DL.Rx.eatBracedQuantifier; rx3_auto

theorem F.consumeQuantifier (i : Nat) {ne : Bool} (n : Nat) (b : Bool) (hn : E - i + 1 ≤ n) : Fu E i ne (consumeQuantifier n b) (fun _ => i) := by
  unfold DL.Rx.consumeQuantifier; rx3_auto

theorem F.consumeOptionalQuantifier (i : Nat) {ne : Bool} (n : Nat) (hn : E - i + 1 ≤ n) : Fu E i ne (consumeOptionalQuantifier n) (fun _ => i) := by
  unfold DL.Rx.consumeOptionalQuantifier; rx3_auto

theorem F.consumeReverseSolidusAtomEscape (i : Nat) {ne : Bool} (n : Nat) (hn : E - i + 2 ≤ n) : Fu E i ne (consumeReverseSolidusAtomEscape n) (fun b => i + b.toNat) := by
  unfold DL.Rx.consumeReverseSolidusAtomEscape; rx3_auto

theorem F.consumeReverseSolidusFollowedByC (i : Nat) {ne : Bool} :
    Fu E i ne consumeReverseSolidusFollowedByC (fun b => i + b.toNat) := by
  unfold DL.Rx.consumeReverseSolidusFollowedByC
  rx3_step
  rename_i o1
  cases o1 <;> rx3_auto

theorem F.consumeInvalidBracedQuantifier (i : Nat) {ne : Bool} (n : Nat) (hn : E - i + 1 ≤ n) : Fu E i ne (consumeInvalidBracedQuantifier n) (fun b => i + b.toNat) := by
  unfold DL.Rx.consumeInvalidBracedQuantifier; rx3_auto

theorem F.consumePatternCharacter (i : Nat) {ne : Bool} : Fu E i ne consumePatternCharacter (fun b => i + b.toNat) := by
  unfold DL.Rx.consumePatternCharacter; rx3_auto

theorem F.consumeExtendedPatternCharacter (i : Nat) {ne : Bool} : Fu E i ne consumeExtendedPatternCharacter (fun b => i + b.toNat) := by
  unfold DL.Rx.consumeExtendedPatternCharacter; rx3_auto

theorem F.consumeGroupSpecifier (i : Nat) {ne : Bool} (n : Nat) (hn : E - i + 2 ≤ n) : Fu E i ne (consumeGroupSpecifier n) (fun _ => i) := by
  unfold DL.Rx.consumeGroupSpecifier; rx3_auto

end DL.Rx
