import DL.Lemmas.CFSound5

/-! Soundness invariant: `for`, `for-in/of`. -/
namespace DL.CF

theorem kids2_ok (k1 k2 : Kids) (x : A) (hpre : PreK (k1.positions ++ k2.positions) x)
    (ih1 : ∀ x, PreK k1.positions x → PostK k1.upos k1.positions k1.inner k1.mayThrow x (visitKids k1 x))
    (ih2 : ∀ x, PreK k2.positions x → PostK k2.upos k2.positions k2.inner k2.mayThrow x (visitKids k2 x)) :
    PostK (k1.upos ++ k2.upos) (k1.positions ++ k2.positions) (fun q => k1.inner q || k2.inner q)
      (k1.mayThrow || k2.mayThrow) x (visitKids k2 (visitKids k1 x)) := by
  have h1 := ih1 x hpre.left
  have h2 := ih2 _ (hpre.right h1.frame)
  exact h1.seq h2 hpre.disj (Kids.upos_sub k1) (Kids.upos_sub k2) (Kids.inner_false k1) (Kids.inner_false k2)

theorem kids3_ok (k1 k2 k3 : Kids) (x : A) (hpre : PreK (k1.positions ++ (k2.positions ++ k3.positions)) x)
    (ih1 : ∀ x, PreK k1.positions x → PostK k1.upos k1.positions k1.inner k1.mayThrow x (visitKids k1 x))
    (ih2 : ∀ x, PreK k2.positions x → PostK k2.upos k2.positions k2.inner k2.mayThrow x (visitKids k2 x))
    (ih3 : ∀ x, PreK k3.positions x → PostK k3.upos k3.positions k3.inner k3.mayThrow x (visitKids k3 x)) :
    PostK (k1.upos ++ (k2.upos ++ k3.upos)) (k1.positions ++ (k2.positions ++ k3.positions))
      (fun q => k1.inner q || (k2.inner q || k3.inner q)) (k1.mayThrow || (k2.mayThrow || k3.mayThrow)) x
      (visitKids k3 (visitKids k2 (visitKids k1 x))) := by
  have h1 := ih1 x hpre.left
  have h2 := kids2_ok k2 k3 _ (hpre.right h1.frame) ih2 ih3
  refine h1.seq h2 hpre.disj (Kids.upos_sub k1) ?_ (Kids.inner_false k1) ?_
  · intro q hq
    rcases List.mem_append.mp hq with h | h
    · exact List.mem_append.mpr (Or.inl (Kids.upos_sub k2 q h))
    · exact List.mem_append.mpr (Or.inr (Kids.upos_sub k3 q h))
  · intro q hq
    simp only [List.mem_append, not_or] at hq
    simp [Kids.inner_false k2 q hq.1, Kids.inner_false k3 q hq.2]

/-! ### `for` -/
theorem for_n (ls : List Id) (p : Nat) (i u t : Kids) (hasTest tt : Bool) (body : Stmt) :
    (Stmt.compl ls (.forS p i u t hasTest tt body)).n = ((hasTest && !tt) || (body.compl []).b) ∧
    (Stmt.compl ls (.forS p i u t hasTest tt body)).b = false ∧ (Stmt.compl ls (.forS p i u t hasTest tt body)).c = false ∧
    ((Stmt.compl ls (.forS p i u t hasTest tt body)).hasCl = true → (body.compl []).hasCl = true) := by
  refine ⟨by simp [Stmt.compl], by simp [Stmt.compl], by simp [Stmt.compl], ?_⟩
  intro h
  simp only [Stmt.compl, seq_hasCl, testCompl_hasCl, evalCompl_hasCl, evalCompl_n, testCompl_n, Bool.true_and, Bool.false_or] at h
  simpa using loopCompl_hasCl _ _ _ h

theorem for_t (ls : List Id) (p : Nat) (i u t : Kids) (hasTest tt : Bool) (body : Stmt)
    (h : (Stmt.compl ls (.forS p i u t hasTest tt body)).t = true) :
    (i.mayThrow || (u.mayThrow || t.mayThrow)) = true ∨ (body.compl []).t = true := by
  simp only [Stmt.compl, seq_t, evalCompl_t, evalCompl_n, testCompl_t, testCompl_n, loopCompl_t, union_t, guard_t, abrupt_t,
    Bool.true_and] at h
  revert h
  cases tt <;> cases i.mayThrow <;> cases u.mayThrow <;> cases t.mayThrow <;> cases (body.compl []).t <;> simp

theorem forInOf_t (ls : List Id) (p : Nat) (l r : Kids) (body : Stmt)
    (h : (Stmt.compl ls (.forInOf p l r body)).t = true) :
    (l.mayThrow || r.mayThrow) = true ∨ (body.compl []).t = true := by
  simp only [Stmt.compl, seq_t, evalCompl_t, evalCompl_n, seq_n, loopCompl_t, union_t, abrupt_t, Bool.true_and, Bool.and_self] at h
  revert h
  cases l.mayThrow <;> cases r.mayThrow <;> cases (body.compl []).t <;> simp

theorem forTail_ok (live hasTest tt : Bool) (p : Nat) (body : Stmt) (x b' : A) (hb : PostS live [] body x b') :
    TailOK live ((hasTest && !tt) || (body.compl []).b) body.pos [p] b' (forTail p body.pos body.isDeclOrExpr hasTest tt b') := by
  unfold forTail
  by_cases hent : forEnters hasTest tt b' = true
  · -- the loop is entered unconditionally and cannot be left by `break`
    rw [if_pos hent]
    have hdead : (live && ((hasTest && !tt) || (body.compl []).b)) = false := by
      simp only [forEnters, Bool.and_eq_true, Bool.not_eq_true', Bool.or_eq_true] at hent
      have := not_break_dead hb hent.1
      rcases hent.2 with h | h
      · simp only [h]; simpa using this
      · rw [h]; simpa using this
    refine ⟨?_, fun q => by simp, by simp, by simp, by simp, ?_, fun _ => hdead, fun _ _ _ _ _ => hdead⟩
    · intro q _ hq; exact markAsEnd_info_other _ _ _ _ (by simpa using hq)
    · unfold markAsEnd
      rcases hbe : b'.sc.end_ with _ | ⟨r, t, i⟩ | _ | _ <;> simp [hbe]
  · rw [if_neg hent]
    refine ⟨fun q hq _ => markAsEnd_info_other _ _ _ _ hq, fun q => by simp, by simp, by simp, by simp, ⟨_, rfl⟩, by simp, ?_⟩
    intro q hq hqbp hst hnone
    simp only [setEnd_info] at hst
    rw [markAsEnd_endAt_other _ _ _ _ hqbp, hnone] at hst
    simp at hst

/-- a loop statement whose expressions are all visited before the loop scope is entered (`for`, `for-in/of`) -/
theorem kidsThenLoop (live loopN : Bool) (ls : List Id) (s : Stmt) (p : Nat) (kus kps : List Nat) (kinn : Nat → Bool) (kt : Bool) (body : Stmt)
    (extra : List Nat) (tail : A → A) (a a1 : A)
    (hpos : s.positions = p :: (kps ++ body.positions)) (hup : s.upos = p :: (kus ++ body.upos)) (hp : s.pos = p)
    (hn : (s.compl ls).n = loopN) (hb0 : (s.compl ls).b = false) (hc0 : (s.compl ls).c = false)
    (hl0 : (s.compl ls).hasCl = true → (body.compl []).hasCl = true)
    (ht0 : (s.compl ls).t = true → kt = true ∨ (body.compl []).t = true)
    (hr : ∀ q, s.reach q = (q == p || body.reach q)) (hin : ∀ q, s.inner q = (kinn q || body.inner q))
    (hkus : ∀ q, q ∈ kus → q ∈ kps) (hkinn : ∀ q, q ∉ kps → kinn q = false)
    (hextra : ∀ q, q ∈ extra → q = p)
    (hpre : Pre live (p :: (kps ++ body.positions)) a)
    (hk : PostK kus kps kinn kt (flagA a p .other) a1)
    (ih : ∀ a0, Pre live body.positions a0 → PostS live [] body a0 (visitStmt body a0))
    (htail : ∀ b', PostS live [] body (childA .loop a1) b' → TailOK live loopN body.pos extra b' (tail b')) :
    PostS live ls s a (withChild .loop body.pos (fun x => tail (visitStmt body x)) a1) := by
  have hx := Prefix.of hpre hk
  have hc := loopCore live loopN p body.pos body extra tail a1 rfl hx.hs hx.hfresh hx.pr hx.ndr ih htail
  generalize withChild .loop body.pos (fun x => tail (visitStmt body x)) a1 = r at hc
  have htu : ∀ q, q ∈ kus → q ≠ p ∧ q ∉ body.positions := fun q hq =>
    ⟨fun e => hx.pk (e ▸ hkus q hq), fun h => hx.disj q (hkus q hq) h⟩
  have hbu : ∀ q, q ∈ body.upos → q ≠ p ∧ q ∉ kps := fun q hq =>
    ⟨fun e => hx.pr (e ▸ Stmt.upos_sub body q hq), fun h => hx.disj q h (Stmt.upos_sub body q hq)⟩
  have hfr : ∀ q, q ≠ p → q ∉ body.positions → r.info q = a1.info q := fun q h1 h2 =>
    hc.frame q (by simp only [List.mem_cons, not_or]; exact ⟨h1, h2⟩) (fun h => h1 (hextra q h))
  refine ⟨⟨?_, ?_, ?_, ?_, ?_, ?_, ?_, ?_, ?_, ?_, ?_⟩, ?_⟩
  · intro hst; rw [hn]; exact hc.stop hst
  · simp [hb0]
  · simp [hc0]
  · intro hh; rw [hc.fbk, hx.hb]; exact hh
  · intro hh; exact hc.fc (hx.hc hh)
  · intro hh
    apply hc.fcBody
    revert hh hl0; cases live <;> cases (s.compl ls).hasCl <;> simp
  · intro q hq hu'
    rw [hup] at hq
    simp only [List.mem_cons, List.mem_append] at hq
    rw [hr]
    rcases hq with rfl | hqt | hqb
    · rw [hc.urp] at hu'
      have := hx.dead hpre _ rfl hu'
      simp [this]
    · simp [(htu q hqt).1, body.reach_false q (htu q hqt).2]
    · have := hc.p3 q hqb hu'
      revert this; cases live <;> simp [(hbu q hqb).1]
  · intro q hq hu'
    rw [hup] at hq
    simp only [List.mem_cons, List.mem_append] at hq
    rw [hin]
    rcases hq with rfl | hqt | hqb
    · simp [hkinn q hx.pk, body.inner_false q hx.pr]
    · rw [ur_eq_of_info_eq (hfr q (htu q hqt).1 (htu q hqt).2)] at hu'
      simp [hk.p3 q hqt hu', body.inner_false q (htu q hqt).2]
    · simp [hc.p3i q hqb hu', hkinn q (hbu q hqb).2]
  · intro q hq
    rw [hpos] at hq
    simp only [List.mem_cons, List.mem_append, not_or] at hq
    rw [hfr q hq.1 hq.2.2]
    exact hx.hi q hq.1 hq.2.1
  · intro hh; exact hc.mt (hx.hmt hh)
  · intro hh
    simp only [Bool.and_eq_true] at hh
    rcases ht0 hh.2 with ht | ht
    · exact hc.mt (Prefix.pT hpre hk (by simp [hh.1, ht]))
    · exact hc.tBody (by simp [hh.1, ht])
  · intro _ hst
    rw [hp] at hst
    rw [hn]
    by_cases hpe : p ∈ extra
    · exact hc.pExtra hpe hst hx.hp
    · rw [hc.atP hpe, hx.hp] at hst; simp at hst

theorem for_ok (live : Bool) (ls : List Id) (p : Nat) (i u t : Kids) (hasTest tt : Bool) (body : Stmt) (a : A)
    (hpre : Pre live (p :: ((i.positions ++ (u.positions ++ t.positions)) ++ body.positions)) a)
    (ihi : ∀ x, PreK i.positions x → PostK i.upos i.positions i.inner i.mayThrow x (visitKids i x))
    (ihu : ∀ x, PreK u.positions x → PostK u.upos u.positions u.inner u.mayThrow x (visitKids u x))
    (iht : ∀ x, PreK t.positions x → PostK t.upos t.positions t.inner t.mayThrow x (visitKids t x))
    (ih : ∀ a0, Pre live body.positions a0 → PostS live [] body a0 (visitStmt body a0)) :
    PostS live ls (.forS p i u t hasTest tt body) a (visitStmt (.forS p i u t hasTest tt body) a) := by
  have hv : visitStmt (.forS p i u t hasTest tt body) a =
      withChild .loop body.pos (fun x => forTail p body.pos body.isDeclOrExpr hasTest tt (visitStmt body x))
        (visitKids t (visitKids u (visitKids i (flagA a p .other)))) := by
    simp [visitStmt, flagA]
  rw [hv]
  have hk := kids3_ok i u t _ (Prefix.preK hpre) ihi ihu iht
  obtain ⟨hn, hb0, hc0, hl0⟩ := for_n ls p i u t hasTest tt body
  refine kidsThenLoop live _ ls _ p _ _ _ _ body [p] _ a _ rfl rfl rfl hn hb0 hc0 hl0 (for_t ls p i u t hasTest tt body) (fun q => rfl) ?_ ?_ ?_ (by simp) hpre hk ih
    (fun b' hb => forTail_ok live hasTest tt p body _ b' hb)
  · intro q; simp [Stmt.inner, Bool.or_assoc]
  · intro q hq
    simp only [List.mem_append] at hq ⊢
    exact hq.imp (Kids.upos_sub i q) (Or.imp (Kids.upos_sub u q) (Kids.upos_sub t q))
  · intro q hq
    simp only [List.mem_append, not_or] at hq
    simp [Kids.inner_false i q hq.1, Kids.inner_false u q hq.2.1, Kids.inner_false t q hq.2.2]

/-! ### `for-in` / `for-of` -/
theorem forInOf_ok (live : Bool) (ls : List Id) (p : Nat) (l r : Kids) (body : Stmt) (a : A)
    (hpre : Pre live (p :: ((l.positions ++ r.positions) ++ body.positions)) a)
    (ihl : ∀ x, PreK l.positions x → PostK l.upos l.positions l.inner l.mayThrow x (visitKids l x))
    (ihr : ∀ x, PreK r.positions x → PostK r.upos r.positions r.inner r.mayThrow x (visitKids r x))
    (ih : ∀ a0, Pre live body.positions a0 → PostS live [] body a0 (visitStmt body a0)) :
    PostS live ls (.forInOf p l r body) a (visitStmt (.forInOf p l r body) a) := by
  have hv : visitStmt (.forInOf p l r body) a =
      withChild .loop body.pos (fun x => forInOfTail body.pos (visitStmt body x))
        (visitKids r (visitKids l (flagA a p .other))) := by
    simp [visitStmt, flagA]
  rw [hv]
  have hk := kids2_ok l r _ (Prefix.preK hpre) ihl ihr
  have hn : (Stmt.compl ls (.forInOf p l r body)).n = true ∧ (Stmt.compl ls (.forInOf p l r body)).b = false ∧
      (Stmt.compl ls (.forInOf p l r body)).c = false := by simp [Stmt.compl]
  have hl0 : (Stmt.compl ls (.forInOf p l r body)).hasCl = true → (body.compl []).hasCl = true := by
    intro h
    simp only [Stmt.compl, seq_hasCl, evalCompl_hasCl, evalCompl_n, Bool.true_and, Bool.false_or, Bool.and_false, Bool.or_false] at h
    simpa using loopCompl_hasCl _ _ _ h
  refine kidsThenLoop live true ls _ p _ _ _ _ body [] _ a _ rfl rfl rfl hn.1 hn.2.1 hn.2.2 hl0 (forInOf_t ls p l r body) (fun q => rfl) ?_ ?_ ?_ (by simp) hpre hk ih
    (fun b' _ => by
      unfold forInOfTail
      exact ⟨fun q hq _ => markAsEnd_info_other _ _ _ _ hq, fun q => by simp, by simp, by simp, by simp, ⟨_, rfl⟩, by simp, by simp⟩)
  · intro q; simp [Stmt.inner]
  · intro q hq
    simp only [List.mem_append] at hq ⊢
    exact hq.imp (Kids.upos_sub l q) (Kids.upos_sub r q)
  · intro q hq
    simp only [List.mem_append, not_or] at hq
    simp [Kids.inner_false l q hq.1, Kids.inner_false r q hq.2]

end DL.CF
