import DL.Lemmas.CFSound5

/-! Soundness invariant: `for`, `for-in/of`. -/
namespace DL.CF

theorem kids2_ok (k1 k2 : Kids) (x : A) (hpre : PreK (k1.positions ++ k2.positions) x)
    (ih1 : ∀ x, PreK k1.positions x → PostK k1.upos k1.positions k1.inner k1.mayThrow x (visitKids k1 x))
    (ih2 : ∀ x, PreK k2.positions x → PostK k2.upos k2.positions k2.inner k2.mayThrow x (visitKids k2 x)) :
    PostK (k1.upos ++ k2.upos) (k1.positions ++ k2.positions) (fun q => k1.inner q || k2.inner q)
      (k1.mayThrow || k2.mayThrow) x (visitKids k2 (visitKids k1 x)) := by
  have h1 := ih1 x hpre.left
  have h2 := ih2 _ (hpre.right h1.frame)
  exact h1.seq h2 hpre.disj (Kids.upos_sub k1) (Kids.upos_sub k2) (Kids.inner_false k1) (Kids.inner_false k2)

theorem kids3_ok (k1 k2 k3 : Kids) (x : A) (hpre : PreK (k1.positions ++ (k2.positions ++ k3.positions)) x)
    (ih1 : ∀ x, PreK k1.positions x → PostK k1.upos k1.positions k1.inner k1.mayThrow x (visitKids k1 x))
    (ih2 : ∀ x, PreK k2.positions x → PostK k2.upos k2.positions k2.inner k2.mayThrow x (visitKids k2 x))
    (ih3 : ∀ x, PreK k3.positions x → PostK k3.upos k3.positions k3.inner k3.mayThrow x (visitKids k3 x)) :
    PostK (k1.upos ++ (k2.upos ++ k3.upos)) (k1.positions ++ (k2.positions ++ k3.positions))
      (fun q => k1.inner q || (k2.inner q || k3.inner q)) (k1.mayThrow || (k2.mayThrow || k3.mayThrow)) x
      (visitKids k3 (visitKids k2 (visitKids k1 x))) := by
  have h1 := ih1 x hpre.left
  have h2 := kids2_ok k2 k3 _ (hpre.right h1.frame) ih2 ih3
  refine h1.seq h2 hpre.disj (Kids.upos_sub k1) ?_ (Kids.inner_false k1) ?_
  · intro q hq
    rcases List.mem_append.mp hq with h | h
    · exact List.mem_append.mpr (Or.inl (Kids.upos_sub k2 q h))
    · exact List.mem_append.mpr (Or.inr (Kids.upos_sub k3 q h))
  · intro q hq
    simp only [List.mem_append, not_or] at hq
    simp [Kids.inner_false k2 q hq.1, Kids.inner_false k3 q hq.2]

/-! ### `for` -/
/-- two pieces of the flow in sequence, the precondition of the second derived from the postcondition of the first -/
theorem seqL (live : Bool) (us vs ps qs : List Nat) (cx cy : Compl) (rx ry ix iy : Nat → Bool) (a a1 a2 : A)
    (hpre : Pre live (ps ++ qs) a)
    (hx : PostL live us ps cx rx ix a a1)
    (hy : Pre (live && cx.n) qs a1 → PostL (live && cx.n) vs qs cy ry iy a1 a2)
    (hus : ∀ p, p ∈ us → p ∈ ps) (hvs : ∀ p, p ∈ vs → p ∈ qs)
    (hrx : ∀ p, p ∉ ps → rx p = false) (hry : ∀ p, p ∉ qs → ry p = false)
    (hix : ∀ p, p ∉ ps → ix p = false) (hiy : ∀ p, p ∉ qs → iy p = false) :
    PostL live (us ++ vs) (ps ++ qs) (cx.seq cy) (fun p => rx p || (cx.n && ry p)) (fun p => ix p || iy p) a a2 := by
  have hnd := List.nodup_append.mp hpre.nodup
  have hdisj : ∀ p, p ∈ ps → p ∈ qs → False := fun p h1 h2 => hnd.2.2 p h1 p h2 rfl
  have hpre2 : Pre (live && cx.n) qs a1 := by
    refine ⟨hx.p1, ?_, hnd.2.1⟩
    intro p hp
    rw [endAt_eq_of_info_eq (hx.frame p (fun h => hdisj p h hp))]
    exact hpre.fresh p (List.mem_append.mpr (Or.inr hp))
  exact seq_ok live us vs ps qs cx cy rx ry ix iy a a1 a2 hx (hy hpre2) hdisj hus hvs hrx hry hix hiy

theorem Pre.left {live : Bool} {ps qs : List Nat} {a : A} (h : Pre live (ps ++ qs) a) : Pre live ps a :=
  h.sub (fun p hp => List.mem_append.mpr (Or.inl hp)) (List.nodup_append.mp h.nodup).1

theorem kids2L (live : Bool) (k1 k2 : Kids) (x : A) (hpre : Pre live (k1.positions ++ k2.positions) x)
    (ih1 : ∀ (l : Bool) x, Pre l k1.positions x → KidsL l k1 x (visitKids k1 x))
    (ih2 : ∀ (l : Bool) x, Pre l k2.positions x → KidsL l k2 x (visitKids k2 x)) :
    PostL live (k1.upos ++ k2.upos) (k1.positions ++ k2.positions) (k1.compl.seq k2.compl)
      (fun p => k1.flowReach p || (k1.compl.n && k2.flowReach p)) (fun p => k1.inner p || k2.inner p) x
      (visitKids k2 (visitKids k1 x)) :=
  seqL live _ _ _ _ _ _ _ _ _ _ x _ _ hpre (ih1 live x hpre.left) (fun h => ih2 _ _ h)
    (Kids.upos_sub k1) (Kids.upos_sub k2) (Kids.flowReach_false k1) (Kids.flowReach_false k2)
    (Kids.inner_false k1) (Kids.inner_false k2)

theorem kids3L (live : Bool) (k1 k2 k3 : Kids) (x : A) (hpre : Pre live (k1.positions ++ (k2.positions ++ k3.positions)) x)
    (ih1 : ∀ (l : Bool) x, Pre l k1.positions x → KidsL l k1 x (visitKids k1 x))
    (ih2 : ∀ (l : Bool) x, Pre l k2.positions x → KidsL l k2 x (visitKids k2 x))
    (ih3 : ∀ (l : Bool) x, Pre l k3.positions x → KidsL l k3 x (visitKids k3 x)) :
    PostL live (k1.upos ++ (k2.upos ++ k3.upos)) (k1.positions ++ (k2.positions ++ k3.positions))
      (k1.compl.seq (k2.compl.seq k3.compl))
      (fun p => k1.flowReach p || (k1.compl.n && (k2.flowReach p || (k2.compl.n && k3.flowReach p))))
      (fun p => k1.inner p || (k2.inner p || k3.inner p)) x (visitKids k3 (visitKids k2 (visitKids k1 x))) := by
  refine seqL live _ _ _ _ _ _ _ _ _ _ x _ _ hpre (ih1 live x hpre.left) (fun h => kids2L _ k2 k3 _ h ih2 ih3)
    (Kids.upos_sub k1) ?_ (Kids.flowReach_false k1) ?_ (Kids.inner_false k1) ?_
  · intro q hq
    rcases List.mem_append.mp hq with h | h
    · exact List.mem_append.mpr (Or.inl (Kids.upos_sub k2 q h))
    · exact List.mem_append.mpr (Or.inr (Kids.upos_sub k3 q h))
  · intro q hq
    simp only [List.mem_append, not_or] at hq
    simp [Kids.flowReach_false k2 q hq.1, Kids.flowReach_false k3 q hq.2]
  · intro q hq
    simp only [List.mem_append, not_or] at hq
    simp [Kids.inner_false k2 q hq.1, Kids.inner_false k3 q hq.2]

theorem forTail_ok (live hasTest tt : Bool) (p : Nat) (body : Stmt) (x b' : A) (hb : PostS live [] body x b') :
    TailOK live ((hasTest && !tt) || (body.compl []).b) body.pos [p] b' (forTail p body.pos body.isDeclOrExpr hasTest tt b') := by
  unfold forTail
  by_cases hent : forEnters hasTest tt b' = true
  · -- the loop is entered unconditionally and cannot be left by `break`
    rw [if_pos hent]
    have hdead : (live && ((hasTest && !tt) || (body.compl []).b)) = false := by
      simp only [forEnters, Bool.and_eq_true, Bool.not_eq_true', Bool.or_eq_true] at hent
      have := not_break_dead hb hent.1
      rcases hent.2 with h | h
      · simp only [h]; simpa using this
      · rw [h]; simpa using this
    refine ⟨?_, fun q => by simp, by simp, by simp, by simp, ?_, fun _ => hdead, fun _ _ _ _ _ => hdead⟩
    · intro q _ hq; exact markAsEnd_info_other _ _ _ _ (by simpa using hq)
    · unfold markAsEnd
      rcases hbe : b'.sc.end_ with _ | ⟨r, t, i⟩ | _ | _ <;> simp [hbe]
  · rw [if_neg hent]
    refine ⟨fun q hq _ => markAsEnd_info_other _ _ _ _ hq, fun q => by simp, by simp, by simp, by simp, ⟨_, rfl⟩, by simp, ?_⟩
    intro q hq hqbp hst hnone
    simp only [setEnd_info] at hst
    rw [markAsEnd_endAt_other _ _ _ _ hqbp, hnone] at hst
    simp at hst

/-- a loop statement whose expressions (completions `tc`) are all visited before the loop scope is entered
(`for`, `for-in/of`): the loop is live when they can complete normally -/
theorem kidsThenLoop (live loopN : Bool) (ls : List Id) (s : Stmt) (p : Nat) (kus kps : List Nat) (tc : Compl)
    (tr ti : Nat → Bool) (body : Stmt)
    (extra : List Nat) (tail : A → A) (a a1 : A)
    (hpos : s.positions = p :: (kps ++ body.positions)) (hup : s.upos = p :: (kus ++ body.upos)) (hp : s.pos = p)
    (hn : (s.compl ls).n = (tc.n && loopN)) (hb0 : (s.compl ls).b = false) (hc0 : (s.compl ls).c = false)
    (hl0 : (s.compl ls).hasCl = true → tc.n = true ∧ (body.compl []).hasCl = true)
    (ht0 : (s.compl ls).t = true → tc.t = true ∨ (tc.n = true ∧ (body.compl []).t = true))
    (hr : ∀ q, s.reach q = (q == p || tr q || (tc.n && body.reach q))) (hin : ∀ q, s.inner q = (ti q || body.inner q))
    (hkus : ∀ q, q ∈ kus → q ∈ kps) (hti : ∀ q, q ∉ kps → ti q = false) (htr : ∀ q, q ∉ kps → tr q = false)
    (hextra : ∀ q, q ∈ extra → q = p)
    (hpre : Pre live (p :: (kps ++ body.positions)) a)
    (hk : PostL live kus kps tc tr ti (flagA a p .other) a1)
    (ih : ∀ a0, Pre (live && tc.n) body.positions a0 → PostS (live && tc.n) [] body a0 (visitStmt body a0))
    (htail : ∀ b', PostS (live && tc.n) [] body (childA .loop a1) b' → TailOK (live && tc.n) loopN body.pos extra b' (tail b')) :
    PostS live ls s a (withChild .loop body.pos (fun x => tail (visitStmt body x)) a1) := by
  have hx := Prefix.of hpre hk
  have hc := loopCore (live && tc.n) loopN p body.pos body extra tail a1 rfl hx.hs hx.hfresh hx.pr hx.ndr ih htail
  generalize withChild .loop body.pos (fun x => tail (visitStmt body x)) a1 = r at hc
  have htu : ∀ q, q ∈ kus → q ≠ p ∧ q ∉ body.positions := fun q hq =>
    ⟨fun e => hx.pk (e ▸ hkus q hq), fun h => hx.disj q (hkus q hq) h⟩
  have hbu : ∀ q, q ∈ body.upos → q ≠ p ∧ q ∉ kps := fun q hq =>
    ⟨fun e => hx.pr (e ▸ Stmt.upos_sub body q hq), fun h => hx.disj q h (Stmt.upos_sub body q hq)⟩
  have hfr : ∀ q, q ≠ p → q ∉ body.positions → r.info q = a1.info q := fun q h1 h2 =>
    hc.frame q (by simp only [List.mem_cons, not_or]; exact ⟨h1, h2⟩) (fun h => h1 (hextra q h))
  refine ⟨⟨?_, ?_, ?_, ?_, ?_, ?_, ?_, ?_, ?_, ?_, ?_⟩, ?_⟩
  · intro hst; rw [hn, ← Bool.and_assoc]; exact hc.stop hst
  · simp [hb0]
  · simp [hc0]
  · intro hh; rw [hc.fbk]; exact hx.hb hh
  · intro hh; exact hc.fc (hx.hc hh)
  · intro hh
    apply hc.fcBody
    simp only [Bool.and_eq_true] at hh ⊢
    have := hl0 hh.2
    exact ⟨⟨hh.1, this.1⟩, this.2⟩
  · intro q hq hu'
    rw [hup] at hq
    simp only [List.mem_cons, List.mem_append] at hq
    rw [hr]
    rcases hq with rfl | hqt | hqb
    · rw [hc.urp] at hu'
      have := hx.dead hpre _ rfl hu'
      simp [this]
    · rw [ur_eq_of_info_eq (hfr q (htu q hqt).1 (htu q hqt).2)] at hu'
      have := hk.p3 q hqt hu'
      revert this; cases live <;> simp [(htu q hqt).1, body.reach_false q (htu q hqt).2]
    · have := hc.p3 q hqb hu'
      revert this; cases live <;> cases tc.n <;> simp [(hbu q hqb).1, htr q (hbu q hqb).2]
  · intro q hq hu'
    rw [hup] at hq
    simp only [List.mem_cons, List.mem_append] at hq
    rw [hin]
    rcases hq with rfl | hqt | hqb
    · simp [hti q hx.pk, body.inner_false q hx.pr]
    · rw [ur_eq_of_info_eq (hfr q (htu q hqt).1 (htu q hqt).2)] at hu'
      simp [hk.p3i q hqt hu', body.inner_false q (htu q hqt).2]
    · simp [hc.p3i q hqb hu', hti q (hbu q hqb).2]
  · intro q hq
    rw [hpos] at hq
    simp only [List.mem_cons, List.mem_append, not_or] at hq
    rw [hfr q hq.1 hq.2.2]
    exact hx.hi q hq.1 hq.2.1
  · intro hh; exact hc.mt (hx.hmt hh)
  · intro hh
    simp only [Bool.and_eq_true] at hh
    rcases ht0 hh.2 with ht | ht
    · exact hc.mt (hx.pT (by simp [hh.1, ht]))
    · exact hc.tBody (by simp [hh.1, ht.1, ht.2])
  · intro _ hst
    rw [hp] at hst
    rw [hn, ← Bool.and_assoc]
    by_cases hpe : p ∈ extra
    · exact hc.pExtra hpe hst hx.hp
    · rw [hc.atP hpe, hx.hp] at hst; simp at hst

/-! ### `for` -/
theorem for_fields (ls : List Id) (p : Nat) (i u t : Kids) (hasTest tt : Bool) (body : Stmt)
    (hi : i.compl.plain = true) (hu : u.pure = true) (ht : t.compl.plain = true) (htt : tt = true → t.pure = true) :
    let s := Stmt.compl ls (.forS p i u t hasTest tt body)
    let K := i.compl.seq (u.compl.seq t.compl)
    s.n = (K.n && ((hasTest && !tt) || (body.compl []).b)) ∧ s.b = false ∧ s.c = false ∧
    (s.hasCl = true → K.n = true ∧ (body.compl []).hasCl = true) ∧
    (s.t = true → K.t = true ∨ (K.n = true ∧ (body.compl []).t = true)) ∧
    (testCompl tt t).n = t.compl.n := by
  have htn : (testCompl tt t).n = t.compl.n := by
    rw [testCompl_n]; cases htt' : tt with
    | false => simp
    | true => rw [Kids.compl_pure t (htt htt')]; rfl
  have hp := testCompl_plain tt t ht
  have hup := Kids.compl_pure u hu
  refine ⟨?_, ?_, ?_, ?_, ?_, htn⟩
  · simp only [Stmt.compl, testComplOf_eq, seq_n, evalCompl_eq, union_n, loopCompl_n, guard_n, abrupt_n, htn, hup, pureCompl_n]
    cases i.compl.n <;> cases t.compl.n <;> simp
  · simp [Stmt.compl, Compl.plain_b hi, Compl.plain_b hp, hup]
  · simp [Stmt.compl, Compl.plain_c hi, Compl.plain_c hp, hup]
  · intro h
    simp only [Stmt.compl, testComplOf_eq, seq_hasCl, evalCompl_eq, Compl.plain_hasCl hi, Compl.plain_hasCl hp, union_hasCl, guard_hasCl,
      abrupt_hasCl, hup, pureCompl_hasCl, pureCompl_n, Bool.false_or, Bool.and_false, Bool.or_false, Bool.and_eq_true, htn] at h
    refine ⟨?_, loopCompl_hasCl _ _ _ h.2.2⟩
    simp [hup, h.1, h.2.1]
  · intro h
    simp only [Stmt.compl, testComplOf_eq, seq_t, evalCompl_eq, union_t, loopCompl_t, guard_t, abrupt_t, testCompl_t, htn, hup, pureCompl_t,
      pureCompl_n, seq_n] at h ⊢
    revert h
    cases tt <;> cases i.compl.t <;> cases i.compl.n <;> cases u.mayThrow <;> cases t.compl.t <;> cases t.compl.n <;>
      cases (body.compl []).t <;> cases goesRound ls (body.compl []) <;> simp

theorem for_ok (live : Bool) (ls : List Id) (p : Nat) (i u t : Kids) (hasTest tt : Bool) (body : Stmt) (a : A)
    (hi : i.compl.plain = true) (hu : u.pure = true) (ht : t.compl.plain = true) (htt : tt = true → t.pure = true)
    (hpre : Pre live (p :: ((i.positions ++ (u.positions ++ t.positions)) ++ body.positions)) a)
    (ihi : ∀ (l : Bool) x, Pre l i.positions x → KidsL l i x (visitKids i x))
    (ihu : ∀ (l : Bool) x, Pre l u.positions x → KidsL l u x (visitKids u x))
    (iht : ∀ (l : Bool) x, Pre l t.positions x → KidsL l t x (visitKids t x))
    (ih : ∀ (l : Bool) a0, Pre l body.positions a0 → PostS l [] body a0 (visitStmt body a0)) :
    PostS live ls (.forS p i u t hasTest tt body) a (visitStmt (.forS p i u t hasTest tt body) a) := by
  have hv : visitStmt (.forS p i u t hasTest tt body) a =
      withChild .loop body.pos (fun x => forTail p body.pos body.isDeclOrExpr hasTest tt (visitStmt body x))
        (visitKids t (visitKids u (visitKids i (flagA a p .other)))) := by
    simp [visitStmt, flagA]
  rw [hv]
  have hk := kids3L live i u t _ (Prefix.pre hpre) ihi ihu iht
  obtain ⟨hn, hb0, hc0, hl0, ht0, htn⟩ := for_fields ls p i u t hasTest tt body hi hu ht htt
  have hup := Kids.compl_pure u hu
  refine kidsThenLoop live _ ls _ p _ _ _ _ _ body [p] _ a _ rfl rfl rfl hn hb0 hc0 hl0 ht0 ?_ ?_ ?_ ?_ ?_ (by simp) hpre hk
    (fun a0 h0 => ih _ a0 h0) (fun b' hb => forTail_ok _ hasTest tt p body _ b' hb)
  · intro q
    simp only [Stmt.reach, evalCompl_eq, testComplOf_eq, htn, seq_n, hup, pureCompl_n, Kids.flowReach_pure u q hu, Bool.and_false, Bool.or_false,
      Bool.true_and, Bool.false_or]
    cases (q == p) <;> cases i.flowReach q <;> cases i.compl.n <;> cases t.flowReach q <;> cases t.compl.n <;>
      cases body.reach q <;> rfl
  · intro q; simp [Stmt.inner, Bool.or_assoc]
  · intro q hq
    simp only [List.mem_append] at hq ⊢
    exact hq.imp (Kids.upos_sub i q) (Or.imp (Kids.upos_sub u q) (Kids.upos_sub t q))
  · intro q hq
    simp only [List.mem_append, not_or] at hq
    simp [Kids.inner_false i q hq.1, Kids.inner_false u q hq.2.1, Kids.inner_false t q hq.2.2]
  · intro q hq
    simp only [List.mem_append, not_or] at hq
    simp [Kids.flowReach_false i q hq.1, Kids.flowReach_false u q hq.2.1, Kids.flowReach_false t q hq.2.2]

/-! ### `for-in` / `for-of` -/
theorem forIn_fields (ls : List Id) (p : Nat) (l r : Kids) (body : Stmt) (hl : l.pure = true) (hr : r.compl.plain = true) :
    let s := Stmt.compl ls (.forInOf p l r body)
    let K := l.compl.seq r.compl
    s.n = (K.n && true) ∧ s.b = false ∧ s.c = false ∧
    (s.hasCl = true → K.n = true ∧ (body.compl []).hasCl = true) ∧
    (s.t = true → K.t = true ∨ (K.n = true ∧ (body.compl []).t = true)) := by
  have hlp := Kids.compl_pure l hl
  refine ⟨?_, ?_, ?_, ?_, ?_⟩
  · simp [Stmt.compl, hlp]
  · simp [Stmt.compl, Compl.plain_b hr, hlp]
  · simp [Stmt.compl, Compl.plain_c hr, hlp]
  · intro h
    simp only [Stmt.compl, testComplOf_eq, seq_hasCl, evalCompl_eq, Compl.plain_hasCl hr, union_hasCl, abrupt_hasCl, hlp, pureCompl_hasCl,
      pureCompl_n, seq_n, Bool.false_or, Bool.and_false, Bool.or_false, Bool.and_true, Bool.and_eq_true] at h
    refine ⟨by simp [hlp, h.1], loopCompl_hasCl _ _ _ h.2⟩
  · intro h
    simp only [Stmt.compl, testComplOf_eq, seq_t, evalCompl_eq, union_t, loopCompl_t, abrupt_t, hlp, pureCompl_t, pureCompl_n, seq_n,
      Bool.and_true, Bool.true_and] at h ⊢
    revert h
    cases l.mayThrow <;> cases r.compl.t <;> cases r.compl.n <;> cases (body.compl []).t <;> simp

theorem forInOf_ok (live : Bool) (ls : List Id) (p : Nat) (l r : Kids) (body : Stmt) (a : A)
    (hl : l.pure = true) (hr : r.compl.plain = true)
    (hpre : Pre live (p :: ((l.positions ++ r.positions) ++ body.positions)) a)
    (ihl : ∀ (lv : Bool) x, Pre lv l.positions x → KidsL lv l x (visitKids l x))
    (ihr : ∀ (lv : Bool) x, Pre lv r.positions x → KidsL lv r x (visitKids r x))
    (ih : ∀ (lv : Bool) a0, Pre lv body.positions a0 → PostS lv [] body a0 (visitStmt body a0)) :
    PostS live ls (.forInOf p l r body) a (visitStmt (.forInOf p l r body) a) := by
  have hv : visitStmt (.forInOf p l r body) a =
      withChild .loop body.pos (fun x => forInOfTail body.pos (visitStmt body x))
        (visitKids r (visitKids l (flagA a p .other))) := by
    simp [visitStmt, flagA]
  rw [hv]
  have hk := kids2L live l r _ (Prefix.pre hpre) ihl ihr
  obtain ⟨hn, hb0, hc0, hl0, ht0⟩ := forIn_fields ls p l r body hl hr
  have hlp := Kids.compl_pure l hl
  refine kidsThenLoop live true ls _ p _ _ _ _ _ body [] _ a _ rfl rfl rfl hn hb0 hc0 hl0 ht0 ?_ ?_ ?_ ?_ ?_ (by simp) hpre hk
    (fun a0 h0 => ih _ a0 h0)
    (fun b' _ => by
      unfold forInOfTail
      exact ⟨fun q hq _ => markAsEnd_info_other _ _ _ _ hq, fun q => by simp, by simp, by simp, by simp, ⟨_, rfl⟩, by simp, by simp⟩)
  · intro q
    simp only [Stmt.reach, evalCompl_eq, seq_n, hlp, pureCompl_n, Kids.flowReach_pure l q hl, Bool.true_and, Bool.false_or]
  · intro q; simp [Stmt.inner]
  · intro q hq
    simp only [List.mem_append] at hq ⊢
    exact hq.imp (Kids.upos_sub l q) (Kids.upos_sub r q)
  · intro q hq
    simp only [List.mem_append, not_or] at hq
    simp [Kids.inner_false l q hq.1, Kids.inner_false r q hq.2]
  · intro q hq
    simp only [List.mem_append, not_or] at hq
    simp [Kids.flowReach_false l q hq.1, Kids.flowReach_false r q hq.2]

end DL.CF
