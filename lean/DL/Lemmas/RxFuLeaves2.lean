import DL.Lemmas.RxFuLeaves

/-! # Fuel adequacy: escapes, identifiers -/
namespace DL.Rx
attribute [local irreducible] isScalar
variable {E : Nat}

theorem F.eatRegexpUnicodeCodepointEscape (i : Nat) {ne : Bool} (n : Nat) (hn : E - i + 1 ≤ n) : Fu E i ne (eatRegexpUnicodeCodepointEscape n) (fun _ => i) := by
  unfold DL.Rx.eatRegexpUnicodeCodepointEscape; rx3_auto

theorem F.eatRegexpUnicodeSurrogatePairEscape (i : Nat) {ne : Bool} : Fu E i ne eatRegexpUnicodeSurrogatePairEscape (fun _ => i) := by
  unfold DL.Rx.eatRegexpUnicodeSurrogatePairEscape; rx3_auto

theorem F.eatRegexpUnicodeEscapeSequence (i : Nat) {ne : Bool} (n : Nat) (f : Bool) (hn : E - i + 1 ≤ n) : Fu E i ne (eatRegexpUnicodeEscapeSequence n f) (fun _ => i) := by
  unfold DL.Rx.eatRegexpUnicodeEscapeSequence; rx3_auto

theorem F.eatControlLetter (i : Nat) {ne : Bool} : Fu E i ne eatControlLetter (fun _ => i) := by
  unfold DL.Rx.eatControlLetter; rx3_auto

theorem F.eatControlEscape (i : Nat) {ne : Bool} : Fu E i ne eatControlEscape (fun _ => i) := by
  unfold DL.Rx.eatControlEscape; rx3_auto

theorem F.eatZero (i : Nat) {ne : Bool} : Fu E i ne eatZero (fun _ => i) := by
  unfold DL.Rx.eatZero; rx3_auto

theorem F.eatCControlLetter (i : Nat) {ne : Bool} : Fu E i ne eatCControlLetter (fun _ => i) := by
  unfold DL.Rx.eatCControlLetter; rx3_auto

theorem F.eatRegexpIdentifierStart (i : Nat) {ne : Bool} (n : Nat) (hn : E - i + 1 ≤ n) : Fu E i ne (eatRegexpIdentifierStart n) (fun _ => i) := by
  unfold DL.Rx.eatRegexpIdentifierStart; rx3_auto

end DL.Rx
