import DL.Lemmas.CFFrame2

/-! The `unreachable` flag a statement records under its own position, and the statement positions strictly inside it. -/
namespace DL.CF

/-- the statement positions strictly inside a statement -/
def Stmt.subUpos : Stmt → List Nat
  | .simple _ _ kids => kids.upos
  | .block _ b => b.upos
  | .ifS _ t c none => t.upos ++ c.upos
  | .ifS _ t c (some a) => t.upos ++ (c.upos ++ a.upos)
  | .whileS _ t _ b => t.upos ++ b.upos
  | .doWhileS _ b t _ => t.upos ++ b.upos
  | .forS _ i u t _ _ b => (i.upos ++ (u.upos ++ t.upos)) ++ b.upos
  | .forInOf _ l r b => (l.upos ++ r.upos) ++ b.upos
  | .switchS _ d cs => d.upos ++ cs.upos
  | .tryS _ _ b _ _ ck _ _ f => b.upos ++ (ck.upos ++ f.upos)
  | .labeled _ _ b => b.upos
  | .brk _ _ => []
  | .cont _ _ => []
  | .ret _ a => a.upos
  | .throw _ a => a.upos

theorem Stmt.upos_eq (s : Stmt) : s.upos = s.pos :: s.subUpos := by
  cases s with
  | ifS p t c a => cases a <;> rfl
  | _ => rfl

/-- with pairwise distinct positions, a statement's own position is not the position of a statement inside it -/
theorem Stmt.pos_not_sub (s : Stmt) (h : s.positions.Nodup) : s.pos ∉ s.subUpos := by
  cases s with
  | simple p t kids => exact (Stmt.simple_own_sep p t kids h).1
  | block p b =>
    simp only [Stmt.positions] at h
    exact fun hm => (List.nodup_cons.mp h).1 (Stmts.upos_sub b p hm)
  | ifS p t c a =>
    cases a with
    | none =>
      simp only [Stmt.positions] at h
      intro hm
      have := Stmt.upos_sub (.ifS p t c none) p (by rw [Stmt.upos_eq]; exact List.mem_cons_of_mem _ hm)
      simp only [Stmt.subUpos, List.mem_append] at hm
      exact (List.nodup_cons.mp h).1 (List.mem_append.mpr (hm.imp (Kids.upos_sub t p) (Stmt.upos_sub c p)))
    | some a =>
      simp only [Stmt.positions] at h
      intro hm
      simp only [Stmt.subUpos, List.mem_append] at hm
      refine (List.nodup_cons.mp h).1 ?_
      simp only [List.mem_append]
      exact hm.imp (Kids.upos_sub t p) (Or.imp (Stmt.upos_sub c p) (Stmt.upos_sub a p))
  | whileS p t tt b =>
    simp only [Stmt.positions] at h
    intro hm
    simp only [Stmt.subUpos, List.mem_append] at hm
    exact (List.nodup_cons.mp h).1 (List.mem_append.mpr (hm.imp (Kids.upos_sub t p) (Stmt.upos_sub b p)))
  | doWhileS p b t tt =>
    simp only [Stmt.positions] at h
    intro hm
    simp only [Stmt.subUpos, List.mem_append] at hm
    exact (List.nodup_cons.mp h).1 (List.mem_append.mpr (hm.imp (Kids.upos_sub t p) (Stmt.upos_sub b p)))
  | forS p i u t ht tt b =>
    simp only [Stmt.positions] at h
    intro hm
    simp only [Stmt.subUpos, List.mem_append] at hm
    refine (List.nodup_cons.mp h).1 ?_
    simp only [List.mem_append]
    exact hm.imp (Or.imp (Kids.upos_sub i p) (Or.imp (Kids.upos_sub u p) (Kids.upos_sub t p))) (Stmt.upos_sub b p)
  | forInOf p l r b =>
    simp only [Stmt.positions] at h
    intro hm
    simp only [Stmt.subUpos, List.mem_append] at hm
    refine (List.nodup_cons.mp h).1 ?_
    simp only [List.mem_append]
    exact hm.imp (Or.imp (Kids.upos_sub l p) (Kids.upos_sub r p)) (Stmt.upos_sub b p)
  | switchS p d cs =>
    simp only [Stmt.positions] at h
    intro hm
    simp only [Stmt.subUpos, List.mem_append] at hm
    exact (List.nodup_cons.mp h).1 (List.mem_append.mpr (hm.imp (Kids.upos_sub d p) (Cases.upos_sub cs p)))
  | tryS p bp b hh cp ck hf fp f =>
    intro hm
    have h1 : p ∈ (Stmt.tryS p bp b hh cp ck hf fp f).positions.tail := by
      have := Stmt.upos_sub (.tryS p bp b hh cp ck hf fp f)
      simp only [Stmt.subUpos, List.mem_append] at hm
      simp only [Stmt.positions, List.tail_cons, List.mem_cons, List.mem_append]
      rcases hm with hm | hm | hm
      · exact Or.inr (Or.inl (Stmts.upos_sub b p hm))
      · exact Or.inr (Or.inr (Or.inl (Or.inr (Kids.upos_sub ck p hm))))
      · exact Or.inr (Or.inr (Or.inr (Or.inr (Stmts.upos_sub f p hm))))
    simp only [Stmt.positions] at h h1
    exact (List.nodup_cons.mp h).1 h1
  | labeled p l b =>
    simp only [Stmt.positions] at h
    exact fun hm => (List.nodup_cons.mp h).1 (Stmt.upos_sub b p hm)
  | brk p l => simp [Stmt.subUpos]
  | cont p l => simp [Stmt.subUpos]
  | ret p a =>
    simp only [Stmt.positions] at h
    exact fun hm => (List.nodup_cons.mp h).1 (Kids.upos_sub a p hm)
  | throw p a =>
    simp only [Stmt.positions] at h
    exact fun hm => (List.nodup_cons.mp h).1 (Kids.upos_sub a p hm)

end DL.CF
