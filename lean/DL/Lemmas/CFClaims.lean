import DL.Lemmas.CFViol4

/-! The claims of the rule layers for each kind of syntax, their transport, and the claim at a statement's own position. -/
namespace DL.CF

theorem Claims.mono {sv sv' : List Nat} {cs cs' : List (Nat × Stmts)} {gs gs' : List Getter} {F : Info}
    (h : Claims sv cs gs F) (h1 : ∀ q, q ∈ sv' → q ∈ sv) (h2 : ∀ c, c ∈ cs' → c ∈ cs) (h3 : ∀ g, g ∈ gs' → g ∈ gs) :
    Claims sv' cs' gs' F :=
  ⟨fun q hq => h.sv q (h1 q hq), fun c hc => h.cv c (h2 c hc), fun g hg => h.gv g (h3 g hg)⟩

def SClaims (s : Stmt) (ls : List Id) (F : Info) : Prop := Claims (s.stopViol F ls) s.swCases s.getters F
def LClaims (l : Stmts) (F : Info) : Prop := Claims (l.stopViol F) l.swCases l.getters F
def KClaims (ks : Kids) (F : Info) : Prop := Claims (ks.stopViol F) ks.swCases ks.getters F
def KdClaims (k : Kid) (F : Info) : Prop := Claims (k.stopViol F) k.swCases k.getters F
def CClaims (cs : Cases) (sp : Nat) (F : Info) : Prop := Claims (cs.stopViol F) (cs.swCasesAt sp) cs.getters F

theorem SClaims.transport {s : Stmt} {ls : List Id} {F G : Info} (h : SClaims s ls G) (hag : ∀ q ∈ s.positions, F q = G q) :
    SClaims s ls F :=
  Claims.transport_on (f := fun i => s.stopViol i ls) h (Stmt.sv_local s ls) ((Stmt.sw_keys s).close []) (Stmt.getters_mem s)
    (Stmt.upos_sub s) hag

theorem LClaims.transport {l : Stmts} {F G : Info} (h : LClaims l G) (hag : ∀ q ∈ l.positions, F q = G q) : LClaims l F :=
  Claims.transport_on (f := fun i => l.stopViol i) h (Stmts.sv_local l) (Stmts.sw_keys l []) (Stmts.getters_mem l)
    (Stmts.upos_sub l) hag

theorem KClaims.transport {ks : Kids} {F G : Info} (h : KClaims ks G) (hag : ∀ q ∈ ks.positions, F q = G q) : KClaims ks F :=
  Claims.transport_on (f := fun i => ks.stopViol i) h (Kids.sv_local ks) (Kids.sw_keys ks []) (Kids.getters_mem ks)
    (Kids.upos_sub ks) hag

theorem CClaims.transport {cs : Cases} {sp : Nat} {F G : Info} (h : CClaims cs sp G) (hag : ∀ q ∈ cs.positions, F q = G q)
    (hsp : F.ur sp = G.ur sp) : CClaims cs sp F := by
  refine Claims.transport h ?_ ?_ ?_
  · intro q hq
    have := Cases.sv_local cs G F q hq
    have hq' := hag q (Cases.upos_sub cs q this.1)
    exact ⟨this.2 hq', ur_eq_of_info_eq hq'⟩
  · intro c hc
    have := Cases.sw_keys cs sp c hc
    refine ⟨fun r hr => hag r (Cases.upos_sub cs r (this.2 r hr)), ?_⟩
    rcases this.1 with h' | h'
    · simp only [List.mem_singleton] at h'; rw [h']; exact hsp
    · exact ur_eq_of_info_eq (hag _ (Cases.upos_sub cs _ h'))
  · intro g hg; exact hag _ (Cases.getters_mem cs g hg)

/-- the body of a loop: its own key is re-used for the end of the loop, everything else inside it is as the body's
visit left it -/
theorem SClaims.transport_body {s : Stmt} {F G : Info} (h : SClaims s [] G) (hnd : s.positions.Nodup)
    (hag : ∀ q ∈ s.positions, q ≠ s.pos → F q = G q) (hur : F.ur s.pos = G.ur s.pos) :
    Claims ((s.stopViol F []).filter (· != s.pos)) s.swCases s.getters F := by
  have hns := s.pos_not_sub hnd
  refine Claims.transport h ?_ ?_ ?_
  · intro q hq
    rw [List.mem_filter] at hq
    have hne : q ≠ s.pos := by simpa using hq.2
    have := Stmt.sv_local s [] G F q hq.1
    have hq' := hag q (Stmt.upos_sub s q this.1) hne
    exact ⟨this.2 hq', ur_eq_of_info_eq hq'⟩
  · intro c hc
    have := Stmt.sw_keys s c hc
    have hsub : ∀ r, r ∈ s.subUpos → F r = G r := fun r hr =>
      hag r (Stmt.upos_sub s r (by rw [Stmt.upos_eq]; exact List.mem_cons_of_mem _ hr)) (fun e => hns (e ▸ hr))
    refine ⟨fun r hr => hsub r (this.2 r hr), ?_⟩
    rcases this.1 with h' | h'
    · simp only [List.mem_singleton] at h'; rw [h']; exact hur
    · exact ur_eq_of_info_eq (hsub _ h')
  · intro g hg
    exact hag _ (Stmt.getters_mem s g hg) (Stmt.getters_ne s hnd g hg)

/-- the claim at the statement's own position -/
theorem own_claim (s : Stmt) (ls : List Id) (a : A) (hf : s.inF = true) (hpre : PreK s.positions a) :
    Claims (stopHere (visitStmt s a).info ls s) [] [] (visitStmt s a).info := by
  refine ⟨?_, fun _ h => absurd h (by simp), fun _ h => absurd h (by simp)⟩
  intro q hq
  obtain ⟨h0, h1, h2, h3⟩ := mem_stopHere hq
  subst h0
  rw [metaStops_eq] at h2
  exact Stmt.own_stops s ls a hf hpre h1 h2 h3

theorem PreK.sub {ps qs : List Nat} {a : A} (h : PreK ps a) (hsub : ∀ p ∈ qs, p ∈ ps) (hn : qs.Nodup) : PreK qs a :=
  ⟨fun p hp => h.fresh p (hsub p hp), hn⟩

/-- a later state whose metadata agree with `a` on `qs` -/
theorem PreK.move {ps qs : List Nat} {a b : A} (h : PreK ps a) (hsub : ∀ p ∈ qs, p ∈ ps) (hn : qs.Nodup)
    (hag : ∀ q ∈ qs, b.info q = a.info q) : PreK qs b :=
  ⟨fun p hp => by rw [endAt_eq_of_info_eq (hag p hp)]; exact h.fresh p (hsub p hp), hn⟩

end DL.CF
