import DL.Lemmas.RxBAtomEsc
import DL.Lemmas.RxSpecName2

/-! # Annex B (no `u` flag): group names (escapes and surrogate pairs are read in Unicode mode, `force_u_flag`) -/
namespace DL.Rx
open DL.RxSpec DL.Gen.Unicode

attribute [local irreducible] isScalar
variable {src : List Nat} {K : Bool × Nat}

theorem BAt.of_index_eq {r r1 : List Nat} {s s1 : St} (h1 : BAt src K r1 s1) (h : BAt src K r s)
    (he : s1.reader.index = s.reader.index) : BAt src K r s1 := by
  have : r1 = r := by rw [← h1.rest, ← h.rest, he]
  rw [← this]; exact h1

theorem isRegexpIdentifierPart_wb (cp : Nat) (s : St) :
    Wp (isRegexpIdentifierPart cp s) (fun b s1 => s1 = s ∧ (b = true → IdentifierPartChar cp)) :=
  isRegexpIdentifierPart_wp cp s

theorem isRegexpIdentifierStart_wb (cp : Nat) (s : St) :
    Wp (isRegexpIdentifierStart cp s) (fun b s1 => s1 = s ∧ (b = true → IdentifierStartChar cp)) :=
  isRegexpIdentifierStart_wp cp s

theorem pair_value {l t : Nat} (hl : isLeadSurrogate (l : Int) = true) (ht : isTrailSurrogate (t : Int) = true) :
    isLead l ∧ isTrail t ∧
    i64AsU32 (combineSurrogatePair (l : Int) (t : Int)) = (l - 0xD800) * 0x400 + (t - 0xDC00) + 0x10000 := by
  have hL := (isLeadSurrogate_iff l).mp hl
  have hT := (isTrailSurrogate_iff t).mp ht
  refine ⟨hL, hT, ?_⟩
  rw [combine_eq hL hT]
  apply i64AsU32_small
  unfold isLead at hL; unfold isTrail at hT; omega

/-- the leaves of `eat_regexp_identifier_start` / `_part` that answer `true` -/
macro "ident_leaf" ctor:ident pctor:ident ector:ident : tactic => `(tactic| first
  | (-- an escape
     have hu := ‹RegExpUnicodeEscapeSequence _ _ _›
     have hv := ‹(_ : St).lastIntValue = ((_ : Nat) : Int)›
     have hp := ‹True → _› trivial
     have hx := ‹(_ == ch '\\') = true›
     simp only [beq_iff_eq] at hx
     subst hx
     rw [hv, i64AsU32_small (rues_le hu)] at hp
     rx6_true
     refine ⟨_, _, by rx6_at, $ector _ _ _ hu hp, ?_⟩
     st_norm; rw [hv, i64AsU32_small (rues_le hu)])
  | (-- a surrogate pair
     have hl := ‹isLeadSurrogate _ = true›
     have ht := ‹isTrailSurrogate _ = true›
     obtain ⟨hL, hT, hval⟩ := pair_value hl ht
     have hp := ‹True → _› trivial
     rw [hval] at hp
     rx6_true
     refine ⟨_, _, by rx6_at, $pctor _ _ _ ⟨_, _, rfl, hL, hT, rfl⟩ hp, ?_⟩
     st_norm; rw [hval])
  | (-- a character
     rx6_true
     exact ⟨_, _, by rx6_at, $ctor _ _ (‹True → _› trivial), rfl⟩))

theorem eatRegexpIdentifierStart_wb (n : Nat) (r : List Nat) (s : St) (h : BAt src K r s) :
    Wp (eatRegexpIdentifierStart n s) (fun b s1 => Keep s s1 ∧
      if b = true then ∃ r1 x, BAt src K r1 s1 ∧ RxSpecB.RegExpIdentifierStart r r1 x ∧ s1.lastIntValue = (x : Nat)
      else BAt src K r s1) := by
  unfold eatRegexpIdentifierStart
  rx6_step
  rx6_step
  dsimp only
  simp only [h.uFlag', Bool.not_false, Bool.true_and]
  rx6_autos
  all_goals (try rx6_false)
  all_goals (try (
    rename_i hn
    refine ⟨by rx6_keep, ?_⟩
    rw [if_neg (by decide)]
    exact BAt.of_index_eq (by assumption) h (by simpa using hn)))
  all_goals ident_leaf RxSpecB.RegExpIdentifierStart.char RxSpecB.RegExpIdentifierStart.pair RxSpecB.RegExpIdentifierStart.escape

macro "ident_leaf_part" : tactic => `(tactic| first
  | (-- an escape
     have hu := ‹RegExpUnicodeEscapeSequence _ _ _›
     have hv := ‹(_ : St).lastIntValue = ((_ : Nat) : Int)›
     have hp := ‹True → _› trivial
     have hx := ‹(some _ == some (ch '\\')) = true›
     simp only [beq_iff_eq, Option.some.injEq] at hx
     subst hx
     rw [hv, i64AsU32_small (rues_le hu)] at hp
     rx6_true
     refine ⟨_, _, by rx6_at, RxSpecB.RegExpIdentifierPart.escape _ _ _ hu hp, ?_⟩
     st_norm; rw [hv, i64AsU32_small (rues_le hu)])
  | (-- a surrogate pair
     have hlt := ‹(isLeadSurrogate _ && isTrailSurrogate _) = true›
     obtain ⟨hl, ht⟩ := (Bool.and_eq_true _ _).mp hlt
     obtain ⟨hL, hT, hval⟩ := pair_value hl ht
     have hp := ‹True → _› trivial
     rw [hval] at hp
     rx6_true
     refine ⟨_, _, by rx6_at, RxSpecB.RegExpIdentifierPart.pair _ _ _ ⟨_, _, rfl, hL, hT, rfl⟩ hp, ?_⟩
     st_norm; rw [hval])
  | (-- a character
     rx6_true
     exact ⟨_, _, by rx6_at, RxSpecB.RegExpIdentifierPart.char _ _ (‹True → _› trivial), rfl⟩))

theorem eatRegexpIdentifierPart_wb (n : Nat) (r : List Nat) (s : St) (h : BAt src K r s) :
    Wp (eatRegexpIdentifierPart n s) (fun b s1 => Keep s s1 ∧
      if b = true then ∃ r1 x, BAt src K r1 s1 ∧ RxSpecB.RegExpIdentifierPart r r1 x ∧ s1.lastIntValue = (x : Nat)
      else BAt src K r s1) := by
  unfold eatRegexpIdentifierPart
  rx6_step
  rx6_step
  dsimp only
  simp only [h.uFlag', Bool.not_false, Bool.true_and]
  rx6_autos
  all_goals (try rx6_false)
  all_goals (try (
    rename_i hn
    refine ⟨by rx6_keep, ?_⟩
    rw [if_neg (by decide)]
    exact BAt.of_index_eq (by assumption) h (by simpa using hn)))
  all_goals ident_leaf_part

end DL.Rx
