import DL.Lemmas.RxCompAtomEsc
import DL.Lemmas.RxSpecClass

/-! # Completeness: character classes (u-mode) -/
namespace DL.Rx
open DL.RxSpec DL.Gen.Unicode

attribute [local irreducible] isScalar
variable {src : List Nat} {N : Nat}

theorem cce_head2 {i r : List Nat} (h : CharacterClassEscape i r) :
    i.head? ≠ some (ch 'b') ∧ i.head? ≠ some (ch '-') := by
  cases h with
  | simple x _ hx =>
    simp only [List.mem_cons, List.not_mem_nil, or_false] at hx
    rcases hx with rfl | rfl | rfl | rfl | rfl | rfl <;>
      exact ⟨head_ne_of_ne (by decide) _, head_ne_of_ne (by decide) _⟩
  | property x m _ hx _ =>
    rcases hx with rfl | rfl <;> exact ⟨head_ne_of_ne (by decide) _, head_ne_of_ne (by decide) _⟩

theorem ce_head2 {i r : List Nat} {v : Nat} (h : CharacterEscape i r v) :
    i.head? ≠ some (ch 'b') ∧ i.head? ≠ some (ch '-') := by
  have key : ∀ (x : Nat) (m : List Nat), (x ≠ ch 'b' ∧ x ≠ ch '-') →
      (x :: m).head? ≠ some (ch 'b') ∧ (x :: m).head? ≠ some (ch '-') :=
    fun x m hx => ⟨head_ne_of_ne hx.1 _, head_ne_of_ne hx.2 _⟩
  cases h with
  | unicode _ _ _ hu => obtain ⟨m, rfl⟩ := rues_head hu; exact key _ _ (by decide)
  | identity _ _ hx =>
    refine key _ _ ?_
    rcases hx with hx | hx
    · unfold SyntaxCharacter at hx
      simp only [List.mem_cons, List.not_mem_nil, or_false] at hx
      rcases hx with h | h | h | h | h | h | h | h | h | h | h | h | h | h <;> subst h <;> decide
    · subst hx; decide
  | _ => exact key _ _ (by decide)

theorem consumeClassEscape_wc (n : Nat) (r r1 : List Nat) (v : Option Nat) (s : St) (h : UAt src N r s)
    (hD : ClassEscape r r1 v) :
    Wc (consumeClassEscape n s) (fun b s1 => b = true ∧ UAt src N r1 s1 ∧ IntIs s1 v ∧ KeepN s s1) := by
  cases hD with
  | b _ =>
    unfold consumeClassEscape
    rx5_autos
    all_goals (
      refine ⟨by first | rfl | assumption, by rx4_at, ?_, by first | rx4_keep | exact Keep.toN ‹_›⟩
      first | rfl | (show _ = _; assumption))
  | dash _ =>
    unfold consumeClassEscape
    rx5_autos
    all_goals (
      refine ⟨by first | rfl | assumption, by rx4_at, ?_, by first | rx4_keep | exact Keep.toN ‹_›⟩
      first | rfl | (show _ = _; assumption))
  | characterClass _ _ hc =>
    obtain ⟨h1, h2⟩ := cce_head2 hc
    unfold consumeClassEscape
    rx5_autos
    all_goals (
      refine ⟨by first | rfl | assumption, by rx4_at, ?_, by first | rx4_keep | exact Keep.toN ‹_›⟩
      first | rfl | (show _ = _; assumption))
  | character _ _ v hc =>
    obtain ⟨h1, h2⟩ := ce_head2 hc
    obtain ⟨_, hfree⟩ := ce_head hc
    unfold consumeClassEscape
    rx5_autos
    all_goals (
      refine ⟨by first | rfl | assumption, by rx4_at, ?_, by first | rx4_keep | exact Keep.toN ‹_›⟩
      first | rfl | (show _ = _; assumption))

theorem consumeClassAtom_wc (n : Nat) (r r1 : List Nat) (v : Option Nat) (s : St) (h : UAt src N r s)
    (hD : ClassAtom r r1 v) :
    Wc (consumeClassAtom n s) (fun b s1 => b = true ∧ UAt src N r1 s1 ∧ IntIs s1 v ∧ KeepN s s1) := by
  cases hD with
  | dash _ =>
    unfold consumeClassAtom
    rx5_autos
    all_goals (
      refine ⟨by first | rfl | assumption, by rx4_at, ?_, by first | rx4_keep | exact Keep.toN ‹_›⟩
      first | rfl | (show _ = _; assumption))
  | noDash _ _ _ hnd =>
    cases hnd with
    | char x _ hsc h1 h2 h3 =>
      have hb : (x != ch '\\' && x != ch ']') = true := by
        have e1 : (x != ch '\\') = true := by simpa using h1
        have e2 : (x != ch ']') = true := by simpa using h2
        rw [e1, e2]; rfl
      unfold consumeClassAtom
      rx5_autos
      all_goals (
        refine ⟨by first | rfl | assumption, by rx4_at, ?_, by first | rx4_keep | exact Keep.toN ‹_›⟩
        first | rfl | (show _ = _; assumption))
    | escape m _ _ he =>
      unfold consumeClassAtom
      rx5_autos
      exact ⟨rfl, ‹UAt src N r1 _›, ‹IntIs _ v›, by rx4_keep⟩

/-- at `]` there is no `ClassAtom` -/
theorem consumeClassAtom_wcn (n : Nat) (r1 : List Nat) (s : St) (h : UAt src N (ch ']' :: r1) s) :
    Wc (consumeClassAtom n s) (fun b s1 => b = false ∧ s1 = s) := by
  unfold consumeClassAtom
  rx5_autos
  exact ⟨rfl, rfl⟩

theorem classAtomNoDash_head {i r : List Nat} {v : Option Nat} (h : ClassAtomNoDash i r v) : i.head? ≠ some (c '-') := by
  cases h with
  | char x _ _ _ _ h3 => exact head_ne_of_ne h3 _
  | escape m _ _ _ => exact head_ne_of_ne (by decide) _

/-- the flat view of a `ClassRanges` that ends at `]`: what one run of the loop sees -/
theorem cr_items {sym : CRSym} {i r : List Nat} (h : CR sym i r) (r1 : List Nat) (he : r = c ']' :: r1) :
    match sym with
    | .ClassRanges => ∃ b, Items b i r
    | .NonemptyClassRanges => Items true i r
    | .NonemptyClassRangesNoDash => ∀ i0 v0, ClassAtom i0 i v0 → Items true i0 r := by
  have hend : r.head? ≠ some (c '-') := by rw [he]; exact head_ne_of_ne (by decide) _
  induction h with
  | empty r => exact ⟨false, Items.nil r⟩
  | nonempty i r _ ih => exact ⟨true, ih he hend⟩
  | atom i r v ha => exact Items.atom false i r r v ha hend (Items.nil r)
  | atomMore i m r v ha _ ih => exact ih he hend i v ha
  | range i m₁ m₂ r a b ha hb hok _ ih =>
    obtain ⟨b', hit⟩ := ih he hend
    exact Items.range b' i m₁ m₂ r a b ha hb hok hit
  | ndAtom i r v ha =>
    intro i0 v0 ha0
    cases ha with
    | dash _ => exact Items.trailing i0 r v0 ha0
    | noDash _ _ _ hnd =>
      exact Items.atom true i0 i r v0 ha0 (classAtomNoDash_head hnd)
        (Items.atom false i r r v (ClassAtom.noDash _ _ _ hnd) hend (Items.nil r))
  | ndAtomMore i m r v hnd _ ih =>
    intro i0 v0 ha0
    exact Items.atom true i0 i r v0 ha0 (classAtomNoDash_head hnd) (ih he hend i v (ClassAtom.noDash _ _ _ hnd))
  | ndRange i m₁ m₂ r a b hnd hb hok _ ih =>
    intro i0 v0 ha0
    obtain ⟨b', hit⟩ := ih he hend
    exact Items.atom true i0 i r v0 ha0 (classAtomNoDash_head hnd)
      (Items.range b' i m₁ m₂ r a b (ClassAtom.noDash _ _ _ hnd) hb hok hit)

theorem rangeOk_int {sa sb : St} {x y : Option Nat} (hok : RangeOk x y) (hx : IntIs sa x) (hy : IntIs sb y) :
    ¬((sa.lastIntValue == -1 || sb.lastIntValue == -1) = true) ∧ ¬sa.lastIntValue > sb.lastIntValue := by
  obtain ⟨a, b, rfl, rfl, hab⟩ := hok
  have ha : sa.lastIntValue = (a : Nat) := hx
  have hb : sb.lastIntValue = (b : Nat) := hy
  rw [ha, hb]
  constructor
  · simp only [Bool.or_eq_true, beq_iff_eq, not_or]
    constructor <;> omega
  · omega

theorem consumeClassRanges_wc (r1 : List Nat) : ∀ (n : Nat) (b : Bool) (r : List Nat) (s : St), UAt src N r s →
    Items b r (ch ']' :: r1) →
    Wc (consumeClassRanges n s) (fun _ s1 => UAt src N (ch ']' :: r1) s1 ∧ KeepN s s1)
  | 0, _, _, _, _, _ => Wc.outOfFuel
  | n + 1, b, r, s, h, hit => by
    have ih := consumeClassRanges_wc r1 n
    cases hit with
    | nil =>
      unfold consumeClassRanges
      rx5_autos
      all_goals first
        | exact ⟨by rx4_at, by rx4_keep⟩
        | exact absurd ‹_› (rangeOk_int ‹RangeOk _ _› ‹IntIs _ _› ‹IntIs _ _›).1
        | exact absurd ‹_› (rangeOk_int ‹RangeOk _ _› ‹IntIs _ _› ‹IntIs _ _›).2
    | atom b' _ m _ v ha hne hrest =>
      unfold consumeClassRanges
      rx5_autos
      all_goals first
        | exact ⟨by rx4_at, by rx4_keep⟩
        | exact absurd ‹_› (rangeOk_int ‹RangeOk _ _› ‹IntIs _ _› ‹IntIs _ _›).1
        | exact absurd ‹_› (rangeOk_int ‹RangeOk _ _› ‹IntIs _ _› ‹IntIs _ _›).2
    | range b' _ m₁ m₂ _ x y ha hb hok hrest =>
      unfold consumeClassRanges
      rx5_autos
      all_goals first
        | exact ⟨by rx4_at, by rx4_keep⟩
        | exact absurd ‹_› (rangeOk_int ‹RangeOk _ _› ‹IntIs _ _› ‹IntIs _ _›).1
        | exact absurd ‹_› (rangeOk_int ‹RangeOk _ _› ‹IntIs _ _› ‹IntIs _ _›).2
    | trailing _ _ v ha =>
      unfold consumeClassRanges
      rx5_autos
      all_goals first
        | exact ⟨by rx4_at, by rx4_keep⟩
        | exact absurd ‹_› (rangeOk_int ‹RangeOk _ _› ‹IntIs _ _› ‹IntIs _ _›).1
        | exact absurd ‹_› (rangeOk_int ‹RangeOk _ _› ‹IntIs _ _› ‹IntIs _ _›).2

theorem consumeCharacterClass_wc (n : Nat) (r r1 : List Nat) (s : St) (h : UAt src N r s)
    (hD : CharacterClass r r1) :
    Wc (consumeCharacterClass n s) (fun b s1 => b = true ∧ UAt src N r1 s1 ∧ KeepN s s1) := by
  cases hD with
  | pos m _ hne hcr =>
    obtain ⟨b, hit⟩ := cr_items hcr r1 rfl
    have hloop := fun s (h : UAt src N m s) => consumeClassRanges_wc (src := src) (N := N) r1 n b m s h hit
    unfold consumeCharacterClass
    rx5_autos
    rx5_fin
  | neg m _ hcr =>
    obtain ⟨b, hit⟩ := cr_items hcr r1 rfl
    have hloop := fun s (h : UAt src N m s) => consumeClassRanges_wc (src := src) (N := N) r1 n b m s h hit
    unfold consumeCharacterClass
    rx5_autos
    rx5_fin

theorem consumeCharacterClass_wcn (n : Nat) (r : List Nat) (s : St) (h : UAt src N r s) (hn : r.head? ≠ some (ch '[')) :
    Wc (consumeCharacterClass n s) (fun b s1 => b = false ∧ s1 = s) := by
  unfold consumeCharacterClass
  rx5_autos
  exact ⟨rfl, rfl⟩

end DL.Rx
