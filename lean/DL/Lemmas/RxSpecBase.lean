import DL.Model.RegexSpec
import DL.Lemmas.RxSpecAttr

/-!
# Soundness w.r.t. the grammar: the reader abstraction (unicode mode) and the `Wp` calculus

`RInv src s`: the reader of `s` reads `src` in unicode mode, `end = src.length`, and the look-ahead buffer mirrors
`src` at `index`.  Under it every reader operation is a function of the position: `setPos`.
-/
namespace DL.Rx

/-- weakest precondition for partial correctness: only `ok` outcomes oblige -/
def Wp {α : Type} (r : Res α) (Q : α → St → Prop) : Prop :=
  match r with
  | .ok a s => Q a s
  | _ => True

theorem Wp.mono {α : Type} {r : Res α} {Q Q' : α → St → Prop} (h : Wp r Q) (hq : ∀ a s, Q a s → Q' a s) : Wp r Q' := by
  cases r <;> first | exact hq _ _ h | trivial

theorem Wp.bind {α β : Type} {m : M α} {g : α → M β} {s : St} {Q : β → St → Prop}
    (h : Wp (m s) (fun a s1 => Wp (g a s1) Q)) : Wp ((m >>= g) s) Q := by
  show Wp (M.bind m g s) Q
  unfold M.bind
  cases hm : m s <;> rw [hm] at h <;> first | exact h | trivial

/-- call a function with a proved specification -/
theorem Wp.call {α β : Type} {m : M α} {g : α → M β} {s : St} {R : α → St → Prop} {Q : β → St → Prop}
    (hf : Wp (m s) R) (k : ∀ a s1, R a s1 → Wp (g a s1) Q) : Wp ((m >>= g) s) Q :=
  Wp.bind (hf.mono k)

theorem Wp.ok {α : Type} {a : α} {s : St} {Q : α → St → Prop} (h : Q a s) : Wp (Res.ok a s) Q := h

/-- the reader with position `i` and look-ahead buffer `cps` -/
def St.pos (s : St) (i : Nat) (cps : List Nat) : St :=
  { s with reader := { s.reader with index := i, cps := cps } }

/-- `last_int_value = v` -/
def St.withInt (s : St) (v : Int) : St := { s with lastIntValue := v }
/-- `last_str_value = v` -/
def St.withStr (s : St) (v : List Nat) : St := { s with lastStrValue := v }

/-- the reader repositioned at `i` -/
def St.setPos (s : St) (src : List Nat) (i : Nat) : St := s.pos i ((src.drop i).take 4)

/-- the part of the reader that never changes after `reset` -/
structure RStatic (src : List Nat) (rd : Reader) : Prop where
  /-- `src` is the text the reader indexes: the code points with the `u` flag, the UTF-16 code units without -/
  units_eq : (if rd.unicode = true then rd.src else encodeUtf16 rd.src) = src
  end_eq : rd.end_ = src.length

structure RInv (src : List Nat) (rd : Reader) : Prop extends RStatic src rd where
  le : rd.index ≤ src.length
  cps_eq : rd.cps = (src.drop rd.index).take 4

theorem RStatic.pos {src : List Nat} {s : St} (h : RStatic src s.reader) (i : Nat) (cps : List Nat) :
    RStatic src (s.pos i cps).reader := ⟨h.units_eq, h.end_eq⟩

theorem RInv.setPos {src : List Nat} {s : St} (h : RStatic src s.reader) {i : Nat} (hi : i ≤ src.length) :
    RInv src (s.setPos src i).reader :=
  ⟨⟨h.units_eq, h.end_eq⟩, hi, rfl⟩

theorem readerAt_lt {src : List Nat} {s : St} (h : RStatic src s.reader) {p : Nat} (hp : p < src.length) :
    readerAt p s = .ok (some src[p]) s := by
  show (if p ≥ s.reader.end_ then (pure none : M (Option Nat)) else _) s = _
  rw [if_neg (by rw [h.end_eq]; omega)]
  have hu := h.units_eq
  by_cases hc : s.reader.unicode = true
  · rw [if_pos hc] at hu ⊢
    show (match s.reader.src[p]? with | some c => (pure (some c) : M (Option Nat)) | none => _) s = _
    rw [hu, List.getElem?_eq_getElem hp]; rfl
  · rw [if_neg hc] at hu ⊢
    show (match (encodeUtf16 s.reader.src)[p]? with | some c => (pure (some c) : M (Option Nat)) | none => _) s = _
    rw [hu, List.getElem?_eq_getElem hp]; rfl

theorem readerAt_ge {src : List Nat} {s : St} (h : RStatic src s.reader) {p : Nat} (hp : src.length ≤ p) :
    readerAt p s = .ok none s := by
  show (if p ≥ s.reader.end_ then (pure none : M (Option Nat)) else _) s = _
  rw [if_pos (by rw [h.end_eq]; exact hp)]; rfl

theorem take_succ_of_lt (l : List Nat) (j : Nat) (h : j < l.length) : l.take j ++ [l[j]] = l.take (j + 1) := by
  rw [List.take_add_one, List.getElem?_eq_getElem h]; rfl

/-- the `for i in 0..4` of `rewind`: fills the buffer up to `take 4` -/
theorem rewindLoop_eq {src : List Nat} (i : Nat) (s : St) (h : RStatic src s.reader) : ∀ (k j : Nat),
    j + k = 4 → j ≤ (src.drop i).length →
    rewindLoop i k j (s.pos i ((src.drop i).take j)) = .ok () (s.setPos src i)
  | 0, j, hjk, hj => by
    have : j = 4 := by omega
    subst this; rfl
  | k + 1, j, hjk, hj => by
    unfold rewindLoop
    have hlen : (src.drop i).length = src.length - i := List.length_drop ..
    show M.bind (readerAt (i + j)) _ _ = _
    unfold M.bind
    by_cases hp : i + j < src.length
    · rw [readerAt_lt (h.pos _ _) hp]
      have hj' : j < (src.drop i).length := by omega
      have hget : src[i + j] = (src.drop i)[j] := by rw [List.getElem_drop]
      show rewindLoop i k (j + 1) ((s.pos i ((src.drop i).take j)).pos i ((src.drop i).take j ++ [src[i + j]])) = _
      rw [hget, take_succ_of_lt _ _ hj']
      exact rewindLoop_eq i s h k (j + 1) (by omega) (by omega)
    · rw [readerAt_ge (h.pos _ _) (by omega)]
      have hjl : (src.drop i).length = j := by omega
      show Res.ok () (s.pos i ((src.drop i).take j)) = Res.ok () (s.pos i ((src.drop i).take 4))
      rw [List.take_of_length_le (by omega), List.take_of_length_le (by omega)]

theorem rewind_eq {src : List Nat} {s : St} (h : RStatic src s.reader) (i : Nat) : rewind i s = .ok () (s.setPos src i) :=
  rewindLoop_eq i s h 4 0 rfl (Nat.zero_le _)

theorem take4_tail (l : List Nat) : (l.take 4).tail ++ (match l[4]? with | some x => [x] | none => []) = l.tail.take 4 := by
  rcases l with _ | ⟨a, _ | ⟨b, _ | ⟨c, _ | ⟨d, _ | ⟨e, t⟩⟩⟩⟩⟩ <;> rfl

/-- `advance` before the end moves to the next position -/
theorem advance_eq {src : List Nat} {s : St} (h : RInv src s.reader) (hlt : s.reader.index < src.length) :
    advance s = .ok () (s.setPos src (s.reader.index + 1)) := by
  have hl : src.drop s.reader.index = src[s.reader.index] :: src.drop (s.reader.index + 1) :=
    List.drop_eq_getElem_cons hlt
  have hlen : (src.drop (s.reader.index + 1)).length = src.length - (s.reader.index + 1) := List.length_drop ..
  have hcps : s.reader.cps = src[s.reader.index] :: (src.drop (s.reader.index + 1)).take 3 := by
    rw [h.cps_eq, hl]; rfl
  show (match s.reader.cps with | [] => (pure () : M Unit) | _ :: rest => _) s = _
  rw [hcps]
  show M.bind (readerAt (s.reader.index + 1 + ((src.drop (s.reader.index + 1)).take 3).length)) _
    (s.pos (s.reader.index + 1) ((src.drop (s.reader.index + 1)).take 3)) = _
  unfold M.bind
  rw [List.length_take, hlen]
  by_cases hp : s.reader.index + 1 + min 3 (src.length - (s.reader.index + 1)) < src.length
  · rw [readerAt_lt (h.toRStatic.pos _ _) hp]
    have h3 : min 3 (src.length - (s.reader.index + 1)) = 3 := by omega
    have hj : 3 < (src.drop (s.reader.index + 1)).length := by omega
    have hget : src[s.reader.index + 1 + min 3 (src.length - (s.reader.index + 1))] =
        (src.drop (s.reader.index + 1))[3] := by
      rw [List.getElem_drop]; congr 1; omega
    show Res.ok () (s.pos (s.reader.index + 1) ((src.drop (s.reader.index + 1)).take 3 ++ [_])) = _
    rw [hget, take_succ_of_lt _ _ hj]; rfl
  · rw [readerAt_ge (h.toRStatic.pos _ _) (by omega)]
    show Res.ok () (s.pos (s.reader.index + 1) ((src.drop (s.reader.index + 1)).take 3)) =
      Res.ok () (s.pos (s.reader.index + 1) ((src.drop (s.reader.index + 1)).take 4))
    rw [List.take_of_length_le (by omega), List.take_of_length_le (by omega)]

/-- `advance` at the end does nothing -/
theorem advance_end {src : List Nat} {s : St} (h : RInv src s.reader) (he : s.reader.index = src.length) :
    advance s = .ok () s := by
  have : s.reader.cps = [] := by rw [h.cps_eq, he, List.drop_length]; rfl
  show (match s.reader.cps with | [] => (pure () : M Unit) | _ :: rest => _) s = _
  rw [this]; rfl

end DL.Rx

namespace DL.Rx
/-! ### algebra of the symbolic states -/
variable (s : St) (src : List Nat) (i j : Nat) (v w : Int) (x y : List Nat)

@[st_simp] theorem setPos_setPos : (s.setPos src i).setPos src j = s.setPos src j := rfl
@[st_simp] theorem withInt_setPos : (s.withInt v).setPos src i = (s.setPos src i).withInt v := rfl
@[st_simp] theorem withStr_setPos : (s.withStr x).setPos src i = (s.setPos src i).withStr x := rfl
@[st_simp] theorem withInt_withInt : (s.withInt v).withInt w = s.withInt w := rfl
@[st_simp] theorem withStr_withStr : (s.withStr x).withStr y = s.withStr y := rfl
@[st_simp] theorem withStr_withInt : (s.withStr x).withInt v = (s.withInt v).withStr x := rfl
@[st_simp] theorem setPos_index : (s.setPos src i).reader.index = i := rfl
@[st_simp] theorem withInt_reader : (s.withInt v).reader = s.reader := rfl
@[st_simp] theorem withStr_reader : (s.withStr x).reader = s.reader := rfl
@[st_simp] theorem withInt_int : (s.withInt v).lastIntValue = v := rfl
@[st_simp] theorem withStr_int : (s.withStr x).lastIntValue = s.lastIntValue := rfl
@[st_simp] theorem setPos_int : (s.setPos src i).lastIntValue = s.lastIntValue := rfl
@[st_simp] theorem withInt_str : (s.withInt v).lastStrValue = s.lastStrValue := rfl
@[st_simp] theorem withStr_str : (s.withStr x).lastStrValue = x := rfl
@[st_simp] theorem setPos_str : (s.setPos src i).lastStrValue = s.lastStrValue := rfl
@[st_simp] theorem withInt_self : s.withInt s.lastIntValue = s := rfl
@[st_simp] theorem withStr_self : s.withStr s.lastStrValue = s := rfl

@[st_simp] theorem fold_withStr : ({ s with lastStrValue := x } : St) = s.withStr x := rfl
@[st_simp] theorem fold_withInt : ({ s with lastIntValue := v } : St) = s.withInt v := rfl
-- projections of the symbolic states
@[st_simp] theorem withInt_strict : (s.withInt v).strict = s.strict := rfl
@[st_simp] theorem withStr_strict : (s.withStr x).strict = s.strict := rfl
@[st_simp] theorem setPos_strict : (s.setPos src i).strict = s.strict := rfl
@[st_simp] theorem withInt_uFlag : (s.withInt v).uFlag = s.uFlag := rfl
@[st_simp] theorem withStr_uFlag : (s.withStr x).uFlag = s.uFlag := rfl
@[st_simp] theorem setPos_uFlag : (s.setPos src i).uFlag = s.uFlag := rfl
@[st_simp] theorem withInt_nFlag : (s.withInt v).nFlag = s.nFlag := rfl
@[st_simp] theorem withStr_nFlag : (s.withStr x).nFlag = s.nFlag := rfl
@[st_simp] theorem setPos_nFlag : (s.setPos src i).nFlag = s.nFlag := rfl
@[st_simp] theorem withInt_numCapturingParens : (s.withInt v).numCapturingParens = s.numCapturingParens := rfl
@[st_simp] theorem withStr_numCapturingParens : (s.withStr x).numCapturingParens = s.numCapturingParens := rfl
@[st_simp] theorem setPos_numCapturingParens : (s.setPos src i).numCapturingParens = s.numCapturingParens := rfl
@[st_simp] theorem withInt_groupNames : (s.withInt v).groupNames = s.groupNames := rfl
@[st_simp] theorem withStr_groupNames : (s.withStr x).groupNames = s.groupNames := rfl
@[st_simp] theorem setPos_groupNames : (s.setPos src i).groupNames = s.groupNames := rfl
@[st_simp] theorem withInt_backreferenceNames : (s.withInt v).backreferenceNames = s.backreferenceNames := rfl
@[st_simp] theorem withStr_backreferenceNames : (s.withStr x).backreferenceNames = s.backreferenceNames := rfl
@[st_simp] theorem setPos_backreferenceNames : (s.setPos src i).backreferenceNames = s.backreferenceNames := rfl
@[st_simp] theorem withInt_lastMinValue : (s.withInt v).lastMinValue = s.lastMinValue := rfl
@[st_simp] theorem withStr_lastMinValue : (s.withStr x).lastMinValue = s.lastMinValue := rfl
@[st_simp] theorem setPos_lastMinValue : (s.setPos src i).lastMinValue = s.lastMinValue := rfl
@[st_simp] theorem withInt_lastMaxValue : (s.withInt v).lastMaxValue = s.lastMaxValue := rfl
@[st_simp] theorem withStr_lastMaxValue : (s.withStr x).lastMaxValue = s.lastMaxValue := rfl
@[st_simp] theorem setPos_lastMaxValue : (s.setPos src i).lastMaxValue = s.lastMaxValue := rfl
@[st_simp] theorem withInt_lastKeyValue : (s.withInt v).lastKeyValue = s.lastKeyValue := rfl
@[st_simp] theorem withStr_lastKeyValue : (s.withStr x).lastKeyValue = s.lastKeyValue := rfl
@[st_simp] theorem setPos_lastKeyValue : (s.setPos src i).lastKeyValue = s.lastKeyValue := rfl
@[st_simp] theorem withInt_lastValValue : (s.withInt v).lastValValue = s.lastValValue := rfl
@[st_simp] theorem withStr_lastValValue : (s.withStr x).lastValValue = s.lastValValue := rfl
@[st_simp] theorem setPos_lastValValue : (s.setPos src i).lastValValue = s.lastValValue := rfl

/-- normalise symbolic states: positions outermost-last, register updates collapsed -/
macro "st_norm" : tactic => `(tactic| simp only [st_simp])
macro "st_norm" " at " h:ident : tactic => `(tactic| simp only [st_simp] at $h:ident)

end DL.Rx
