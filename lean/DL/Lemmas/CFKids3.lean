import DL.Lemmas.CFTry6
import DL.Lemmas.CFSound5b

/-! The invariant for expression trees with statements nested directly in them (`with` bodies, class static blocks):
they are pieces of the enclosing flow. -/
namespace DL.CF

theorem PostL.conv' {live : Bool} {us us' ps ps' : List Nat} {c c' : Compl} {r r' i i' : Nat → Bool} {a a' : A}
    (h : PostL live us ps c r i a a') (hus : ∀ q, q ∈ us' → q ∈ us) (hps : ∀ q, q ∈ ps → q ∈ ps')
    (hn : c'.n = c.n) (hb : c'.b = c.b) (hc : c'.c = c.c) (hl : c'.hasCl = c.hasCl) (ht : c'.t = c.t)
    (hr : ∀ q ∈ us', r' q = r q) (hi : ∀ q ∈ us', i' q = i q) : PostL live us' ps' c' r' i' a a' :=
  ⟨by rw [hn]; exact h.p1, by rw [hb]; exact h.p2, by rw [hc]; exact h.p2c, h.monoB, h.monoC, by rw [hl]; exact h.p2l,
    fun q hq hu => by rw [hr q hq]; exact h.p3 q (hus q hq) hu,
    fun q hq hu => by rw [hi q hq]; exact h.p3i q (hus q hq) hu, fun q hq => h.frame q (fun hp => hq (hps q hp)), h.monoT,
    by rw [ht]; exact h.pT⟩

/-- an expression node: its sub-expressions, then its own effect (it may throw unless it is a bare identifier / `this`) -/
theorem exprL (live : Bool) (e : EKind) (ks : Kids) (a : A) (h : KidsL live ks a (visitKids ks a)) :
    PostL live (Kid.expr e ks).upos (Kid.expr e ks).positions (Kid.expr e ks).compl (Kid.expr e ks).flowReach
      (Kid.expr e ks).inner a (visitKid (.expr e ks) a) := by
  simp only [visitKid, Kid.upos, Kid.positions, Kid.compl]
  have hs := exprEffect_same e (visitKids ks a)
  have hm := exprEffect_mt e (visitKids ks a)
  generalize visitKids ks a = a1 at h hs hm
  have hown : (exprOwn e).n = true ∧ (exprOwn e).b = false ∧ (exprOwn e).c = false ∧ (exprOwn e).hasCl = false := by
    cases e <;> simp [exprOwn, Compl.hasCl]
  refine ⟨?_, ?_, ?_, ?_, ?_, ?_, ?_, ?_, ?_, ?_, ?_⟩
  · intro hst; rw [hs.end_] at hst; simpa [hown.1] using h.p1 hst
  · intro hh; rw [hs.fb]; exact h.p2 (by simpa [hown] using hh)
  · intro hh; rw [hs.fc]; exact h.p2c (by simpa [hown] using hh)
  · intro hh; rw [hs.fb]; exact h.monoB hh
  · intro hh; rw [hs.fc]; exact h.monoC hh
  · intro hh; rw [hs.fc]; exact h.p2l (by simpa [hown] using hh)
  · intro q hq hu; rw [hs.info] at hu; simpa [Kid.flowReach] using h.p3 q hq hu
  · intro q hq hu; rw [hs.info] at hu; simpa [Kid.inner] using h.p3i q hq hu
  · intro q hq; rw [hs.info]; exact h.frame q hq
  · intro hh; exact hm.1 (h.monoT hh)
  · intro hh
    simp only [seq_t] at hh
    cases h1 : (live && ks.compl.t) with
    | true => exact hm.1 (h.pT h1)
    | false =>
      have h2 : (live && ks.compl.n) = true ∧ e = .other := by
        cases e <;> simp [exprOwn] at hh ⊢ <;> (revert hh h1; cases live <;> cases ks.compl.t <;> cases ks.compl.n <;> simp)
      refine hm.2 ?_ h2.2
      cases hst : stopsEnd a1.sc.end_ with
      | false => rfl
      | true => rw [h.p1 hst] at h2; cases h2.1

/-- a function scope among the kids: a value -/
theorem fnScopeL (live : Bool) (p : Nat) (ks : Kids) (a : A) (hs : stopsEnd a.sc.end_ = true → live = false)
    (hk : PostK (Kid.fnScope p ks).upos (Kid.fnScope p ks).positions (Kid.fnScope p ks).inner (Kid.fnScope p ks).mayThrow a
      (visitKid (.fnScope p ks) a)) :
    PostL live (Kid.fnScope p ks).upos (Kid.fnScope p ks).positions (Kid.fnScope p ks).compl (Kid.fnScope p ks).flowReach
      (Kid.fnScope p ks).inner a (visitKid (.fnScope p ks) a) := by
  have := kidL (live := live) hk hs
  exact this.conv' (fun _ h => h) (fun _ h => h) (by simp [Kid.compl]) (by simp [Kid.compl]) (by simp [Kid.compl])
    (by simp [Kid.compl, Compl.hasCl, Compl.normal]) (by simp [Kid.compl, Kid.mayThrow]) (fun _ _ => rfl) (fun _ _ => rfl)

/-- a block among the kids (class static block): a block of the enclosing flow -/
theorem blockKidL (live : Bool) (q : Nat) (body : Stmts) (a : A) (hpre : Pre live (q :: body.positions) a)
    (ih : ∀ a0, Pre live body.positions a0 → PostL live body.upos body.positions body.compl body.reach body.inner a0 (visitStmts body a0)) :
    PostL live (Kid.block q body).upos (Kid.block q body).positions (Kid.block q body).compl (Kid.block q body).flowReach
      (Kid.block q body).inner a (visitKid (.block q body) a) := by
  have hnd := List.nodup_cons.mp hpre.nodup
  have := blockKid_ok live q body a hpre ih
  simp only [visitKid, Kid.upos, Kid.positions, Kid.compl]
  refine this.conv' (fun _ h => h) (fun _ h => h) rfl rfl rfl rfl rfl ?_ (fun _ _ => rfl)
  intro u hu
  have hne : u ≠ q := fun e => hnd.1 (e ▸ Stmts.upos_sub body u hu)
  simp [Kid.flowReach, hne]

/-- a statement among the kids (`with` body): a statement of the enclosing flow -/
theorem stmtKidL (live : Bool) (s : Stmt) (a : A) (h : PostS live [] s a (visitStmt s a)) :
    PostL live (Kid.stmt s).upos (Kid.stmt s).positions (Kid.stmt s).compl (Kid.stmt s).flowReach (Kid.stmt s).inner a
      (visitKid (.stmt s) a) := by
  simp only [visitKid, Kid.upos, Kid.positions, Kid.compl]
  exact h.toPostL.conv' (fun _ h => h) (fun _ h => h) rfl rfl rfl rfl rfl (fun _ _ => rfl) (fun _ _ => rfl)

theorem Kid.flowReach_false (k : Kid) (p : Nat) (h : p ∉ k.positions) : k.flowReach p = false := by
  cases hr : k.flowReach p with
  | false => rfl
  | true => exact absurd (k.flowReach_mem p hr) h

theorem kidsConsL (live : Bool) (k : Kid) (r : Kids) (a : A) (hpre : Pre live (Kids.cons k r).positions a)
    (ihk : ∀ (l : Bool) x, Pre l k.positions x → PostL l k.upos k.positions k.compl k.flowReach k.inner x (visitKid k x))
    (ihr : ∀ (l : Bool) x, Pre l r.positions x → KidsL l r x (visitKids r x)) :
    KidsL live (.cons k r) a (visitKids (.cons k r) a) := by
  simp only [Kids.positions] at hpre
  have := seqL live _ _ _ _ _ _ _ _ _ _ a _ _ hpre (ihk live a hpre.left) (fun h => ihr _ _ h)
    (Kid.upos_sub k) (Kids.upos_sub r) (Kid.flowReach_false k) (Kids.flowReach_false r)
    (Kid.inner_false k) (Kids.inner_false r)
  simp only [visitKids]
  exact this.conv' (fun _ h => by simpa [Kids.upos] using h) (fun _ h => by simpa [Kids.positions] using h)
    (by simp [Kids.compl]) (by simp [Kids.compl]) (by simp [Kids.compl]) (by simp [Kids.compl]) (by simp [Kids.compl])
    (fun _ _ => by simp [Kids.flowReach]) (fun _ _ => by simp [Kids.inner])

end DL.CF
