import DL.Lemmas.RxSpecBase
import DL.Lemmas.RxInd

/-! # Soundness w.r.t. the grammar: the symbolic state `UAt`, primitive steps, the stepping tactic -/
namespace DL.Rx

/-- the validator in u-mode reads `src`, has counted `N` groups, and `r` is the input that remains -/
def UAt (src : List Nat) (N : Nat) (r : List Nat) (s : St) : Prop :=
  RInv src s.reader ∧ src.drop s.reader.index = r ∧ s.uFlag = true ∧ s.strict = true ∧ s.nFlag = true ∧
    s.numCapturingParens = N

variable {src : List Nat} {N : Nat} {α β : Type}

theorem UAt.inv {r : List Nat} {s : St} (h : UAt src N r s) : RInv src s.reader := h.1
theorem UAt.rest {r : List Nat} {s : St} (h : UAt src N r s) : src.drop s.reader.index = r := h.2.1

theorem UAt.lt {x : Nat} {r : List Nat} {s : St} (h : UAt src N (x :: r) s) : s.reader.index < src.length := by
  have h1 := h.rest
  have h2 : (src.drop s.reader.index).length = src.length - s.reader.index := List.length_drop ..
  rw [h1] at h2; simp only [List.length_cons] at h2; omega

theorem UAt.eq_end {s : St} (h : UAt src N [] s) : s.reader.index = src.length := by
  have h1 := h.rest
  have h2 : (src.drop s.reader.index).length = src.length - s.reader.index := List.length_drop ..
  rw [h1] at h2; simp only [List.length_nil] at h2
  have := h.inv.le; omega

theorem UAt.uFlag' {r : List Nat} {s : St} (h : UAt src N r s) : s.uFlag = true := h.2.2.1
theorem UAt.strict' {r : List Nat} {s : St} (h : UAt src N r s) : s.strict = true := h.2.2.2.1
theorem UAt.nFlag' {r : List Nat} {s : St} (h : UAt src N r s) : s.nFlag = true := h.2.2.2.2.1
theorem UAt.ncp {r : List Nat} {s : St} (h : UAt src N r s) : s.numCapturingParens = N := h.2.2.2.2.2

/-- what every production leaves alone -/
structure Keep (s0 s1 : St) : Prop where
  gn : s1.groupNames = s0.groupNames
  bn : s1.backreferenceNames = s0.backreferenceNames
  str : s1.lastStrValue = s0.lastStrValue

theorem Keep.refl (s : St) : Keep s s := ⟨rfl, rfl, rfl⟩
theorem Keep.trans {a b c : St} (h1 : Keep a b) (h2 : Keep b c) : Keep a c :=
  ⟨h2.gn.trans h1.gn, h2.bn.trans h1.bn, h2.str.trans h1.str⟩

/-- the weaker frame of the productions that use `last_str_value` themselves -/
structure KeepN (s0 s1 : St) : Prop where
  gn : s1.groupNames = s0.groupNames
  bn : s1.backreferenceNames = s0.backreferenceNames

theorem KeepN.refl (s : St) : KeepN s s := ⟨rfl, rfl⟩
theorem KeepN.trans {a b c : St} (h1 : KeepN a b) (h2 : KeepN b c) : KeepN a c :=
  ⟨h2.gn.trans h1.gn, h2.bn.trans h1.bn⟩
theorem Keep.toN {a b : St} (h : Keep a b) : KeepN a b := ⟨h.gn, h.bn⟩

/-- after consuming one unit -/
theorem UAt.step {x : Nat} {r : List Nat} {s : St} (h : UAt src N (x :: r) s) :
    UAt src N r (s.setPos src (s.reader.index + 1)) := by
  refine ⟨RInv.setPos h.inv.toRStatic h.lt, ?_, h.2.2.1, h.2.2.2.1, h.2.2.2.2.1, h.2.2.2.2.2⟩
  show src.drop (s.reader.index + 1) = r
  rw [← List.tail_drop, h.rest]; rfl

/-- after `rewind` to the position of an earlier state -/
theorem UAt.back {r r0 : List Nat} {s s0 : St} (h : UAt src N r s) (h0 : UAt src N r0 s0) :
    UAt src N r0 (s.setPos src s0.reader.index) :=
  ⟨RInv.setPos h.inv.toRStatic h0.inv.le, h0.rest, h.2.2.1, h.2.2.2.1, h.2.2.2.2.1, h.2.2.2.2.2⟩

/-- after `rewind` to a position described by plain facts -/
theorem UAt.back' {r r0 : List Nat} {s : St} {i : Nat} (h : UAt src N r s) (hle : i ≤ src.length)
    (hr : src.drop i = r0) : UAt src N r0 (s.setPos src i) :=
  ⟨RInv.setPos h.inv.toRStatic hle, hr, h.2.2.1, h.2.2.2.1, h.2.2.2.2.1, h.2.2.2.2.2⟩

theorem setPos_self {s : St} (h : RInv src s.reader) : s.setPos src s.reader.index = s := by
  unfold St.setPos St.pos
  rw [← h.cps_eq]

/-- record updates outside the reader and the mode fields keep `UAt` -/
theorem UAt.of_eq {r : List Nat} {s s' : St} (h : UAt src N r s) (h1 : s'.reader = s.reader) (h2 : s'.uFlag = s.uFlag)
    (h3 : s'.strict = s.strict) (h4 : s'.nFlag = s.nFlag) (h5 : s'.numCapturingParens = s.numCapturingParens) :
    UAt src N r s' := by
  unfold UAt at *
  rw [h1, h2, h3, h4, h5]; exact h

theorem UAt.cps {r : List Nat} {s : St} (h : UAt src N r s) : s.reader.cps = r.take 4 := by
  rw [h.inv.cps_eq, h.rest]

/-! ### `Wp` rules in continuation-passing form -/

theorem Wp.pure {a : α} {s : St} {Q : α → St → Prop} (h : Q a s) : Wp ((Pure.pure a : M α) s) Q := h

theorem Wp.bind_pure {a : α} {f : α → M β} {s : St} {Q : β → St → Prop} (h : Wp (f a s) Q) :
    Wp (((Pure.pure a : M α) >>= f) s) Q := h

theorem Wp.tail {m : M α} {s : St} {Q : α → St → Prop} (h : Wp ((m >>= Pure.pure) s) Q) : Wp (m s) Q := by
  rw [bind_pure'] at h; exact h

theorem Wp.bind_assoc {γ : Type} {a : M α} {f : α → M β} {g : β → M γ} {s : St} {Q : γ → St → Prop}
    (h : Wp ((a >>= fun x => f x >>= g) s) Q) : Wp (((a >>= f) >>= g) s) Q := by
  rw [bind_assoc']; exact h

theorem Wp.ite {p : Prop} [Decidable p] {a b : M α} {s : St} {Q : α → St → Prop}
    (ha : p → Wp (a s) Q) (hb : ¬p → Wp (b s) Q) : Wp ((if p then a else b) s) Q := by
  by_cases h : p
  · rw [if_pos h]; exact ha h
  · rw [if_neg h]; exact hb h

theorem Wp.bind_ite {p : Prop} [Decidable p] {a b : M α} {g : α → M β} {s : St} {Q : β → St → Prop}
    (ha : p → Wp ((a >>= g) s) Q) (hb : ¬p → Wp ((b >>= g) s) Q) : Wp (((if p then a else b) >>= g) s) Q := by
  rw [ite_bind]; exact Wp.ite ha hb

theorem Wp.bind_orM {a b : M Bool} {g : Bool → M β} {s : St} {Q : β → St → Prop}
    (h : Wp ((a >>= fun x => if x = true then g true else b >>= g) s) Q) : Wp (((a <or> b) >>= g) s) Q := by
  rw [orM_bind]; exact h

theorem Wp.bind_andM {a b : M Bool} {g : Bool → M β} {s : St} {Q : β → St → Prop}
    (h : Wp ((a >>= fun x => if x = true then b >>= g else g false) s) Q) : Wp (((a <and> b) >>= g) s) Q := by
  rw [andM_bind]; exact h

theorem Wp.bind_getSt {g : St → M β} {s : St} {Q : β → St → Prop} (h : Wp (g s s) Q) : Wp ((getSt >>= g) s) Q := h

theorem Wp.bind_modSt {f : St → St} {g : Unit → M β} {s : St} {Q : β → St → Prop} (h : Wp (g () (f s)) Q) :
    Wp ((modSt f >>= g) s) Q := h

theorem Wp.bind_setInt {v : Int} {g : Unit → M β} {s : St} {Q : β → St → Prop}
    (h : Wp (g () (s.withInt v)) Q) : Wp ((setInt v >>= g) s) Q := h

theorem Wp.bind_setStr {v : List Nat} {g : Unit → M β} {s : St} {Q : β → St → Prop}
    (h : Wp (g () (s.withStr v)) Q) : Wp ((setStr v >>= g) s) Q := h

theorem Wp.bind_fail {msg : String} {g : α → M β} {s : St} {Q : β → St → Prop} :
    Wp (((fail msg : M α) >>= g) s) Q := trivial

theorem Wp.bind_outOfFuel {g : α → M β} {s : St} {Q : β → St → Prop} :
    Wp (((outOfFuel : M α) >>= g) s) Q := trivial

theorem Wp.outOfFuel {s : St} {Q : α → St → Prop} : Wp ((DL.Rx.outOfFuel : M α) s) Q := trivial

theorem Wp.bind_rustPanic {why : String} {g : α → M β} {s : St} {Q : β → St → Prop} :
    Wp (((rustPanic why : M α) >>= g) s) Q := trivial

theorem Wp.bind_unwrap {o : Option α} {why : String} {g : α → M β} {s : St} {Q : β → St → Prop}
    (h : ∀ a, o = some a → Wp (g a s) Q) : Wp ((unwrap o why >>= g) s) Q := by
  cases o with
  | none => trivial
  | some a => exact h a rfl

theorem Wp.bind_index {g : Nat → M β} {s : St} {Q : β → St → Prop} (h : Wp (g s.reader.index s) Q) :
    Wp ((index >>= g) s) Q := h

/-- look-ahead at offset 0, with the case distinction on the remaining input -/
theorem Wp.bind_cpo0 {r : List Nat} {g : Option Nat → M β} {s : St} {Q : β → St → Prop} (h : UAt src N r s)
    (hnil : r = [] → Wp (g none s) Q) (hcons : ∀ x r', r = x :: r' → Wp (g (some x) s) Q) :
    Wp ((codePointWithOffset 0 >>= g) s) Q := by
  show Wp (g (s.reader.cps[0]?) s) Q
  rw [h.cps]
  cases r with
  | nil => exact hnil rfl
  | cons x r' => exact hcons x r' rfl

theorem Wp.bind_cpo {r : List Nat} {k : Nat} {g : Option Nat → M β} {s : St} {Q : β → St → Prop} (h : UAt src N r s)
    (hk : k < 4) (hg : Wp (g r[k]? s) Q) : Wp ((codePointWithOffset k >>= g) s) Q := by
  show Wp (g (s.reader.cps[k]?) s) Q
  rw [h.cps, List.getElem?_take, if_pos hk]; exact hg

theorem Wp.bind_advance_cons {x : Nat} {r : List Nat} {g : Unit → M β} {s : St} {Q : β → St → Prop}
    (h : UAt src N (x :: r) s)
    (hg : UAt src N r (s.setPos src (s.reader.index + 1)) → Wp (g () (s.setPos src (s.reader.index + 1))) Q) :
    Wp ((advance >>= g) s) Q := by
  show Wp (M.bind advance g s) Q
  unfold M.bind
  rw [advance_eq h.inv h.lt]; exact hg h.step

theorem Wp.bind_advance_nil {g : Unit → M β} {s : St} {Q : β → St → Prop}
    (h : UAt src N [] s) (hg : Wp (g () s) Q) : Wp ((advance >>= g) s) Q := by
  show Wp (M.bind advance g s) Q
  unfold M.bind
  rw [advance_end h.inv h.eq_end]; exact hg

theorem Wp.bind_rewind {r r0 : List Nat} {g : Unit → M β} {s s0 : St} {Q : β → St → Prop}
    (h : UAt src N r s) (h0 : UAt src N r0 s0)
    (hg : UAt src N r0 (s.setPos src s0.reader.index) → Wp (g () (s.setPos src s0.reader.index)) Q) :
    Wp ((rewind s0.reader.index >>= g) s) Q := by
  show Wp (M.bind (rewind s0.reader.index) g s) Q
  unfold M.bind
  rw [rewind_eq h.inv.toRStatic]; exact hg (h.back h0)

theorem Wp.bind_rewind' {r : List Nat} {i : Nat} {g : Unit → M β} {s : St} {Q : β → St → Prop}
    (h : UAt src N r s) (hle : i ≤ src.length)
    (hg : UAt src N (src.drop i) (s.setPos src i) → Wp (g () (s.setPos src i)) Q) : Wp ((rewind i >>= g) s) Q := by
  show Wp (M.bind (rewind i) g s) Q
  unfold M.bind
  rw [rewind_eq h.inv.toRStatic]; exact hg (h.back' hle rfl)

theorem eat_cons {r : List Nat} {s : St} (h : UAt src N (ch x :: r) s) :
    eat x s = .ok true (s.setPos src (s.reader.index + 1)) := by
  show (match s.reader.cps with
    | c :: _ => if (c == ch x) = true then (advance >>= fun _ => (Pure.pure true : M Bool)) else Pure.pure false
    | [] => Pure.pure false) s = _
  rw [h.cps]
  show (if (ch x == ch x) = true then (advance >>= fun _ => (Pure.pure true : M Bool)) else Pure.pure false) s = _
  rw [if_pos (by simp)]
  show M.bind advance _ s = _
  unfold M.bind
  rw [advance_eq h.inv h.lt]; rfl

theorem eat_ne {r : List Nat} {s : St} (h : UAt src N r s) (hne : r.head? ≠ some (ch x)) : eat x s = .ok false s := by
  show (match s.reader.cps with
    | c :: _ => if (c == ch x) = true then (advance >>= fun _ => (Pure.pure true : M Bool)) else Pure.pure false
    | [] => Pure.pure false) s = _
  rw [h.cps]
  cases r with
  | nil => rfl
  | cons y r' =>
    show (if (y == ch x) = true then _ else (Pure.pure false : M Bool)) s = _
    rw [if_neg]; · rfl
    intro hy; apply hne
    have : y = ch x := by simpa using hy
    rw [this]; rfl

/-- `eat`: either the next unit is `x` and it is consumed, or nothing happens -/
theorem Wp.bind_eat {r : List Nat} {x : Char} {g : Bool → M β} {s : St} {Q : β → St → Prop} (h : UAt src N r s)
    (ht : ∀ r', r = ch x :: r' → UAt src N r' (s.setPos src (s.reader.index + 1)) →
      Wp (g true (s.setPos src (s.reader.index + 1))) Q)
    (hf : r.head? ≠ some (ch x) → Wp (g false s) Q) : Wp ((eat x >>= g) s) Q := by
  show Wp (M.bind (eat x) g s) Q
  unfold M.bind
  by_cases hx : r.head? = some (ch x)
  · cases r with
    | nil => cases hx
    | cons y r' =>
      have : y = ch x := by simpa using hx
      subst this
      rw [eat_cons h]; exact ht r' rfl h.step
  · rw [eat_ne h hx]; exact hf hx

theorem UAt.step2 {x y : Nat} {r : List Nat} {s : St} (h : UAt src N (x :: y :: r) s) :
    UAt src N r (s.setPos src (s.reader.index + 2)) := by
  have := h.step.step
  exact this

theorem UAt.step3 {x y z : Nat} {r : List Nat} {s : St} (h : UAt src N (x :: y :: z :: r) s) :
    UAt src N r (s.setPos src (s.reader.index + 3)) := by
  have := h.step.step.step
  exact this

theorem eat2_cons {r : List Nat} {s : St} (h : UAt src N (ch x :: ch y :: r) s) :
    eat2 x y s = .ok true (s.setPos src (s.reader.index + 2)) := by
  show (match s.reader.cps with
    | c1 :: c2 :: _ => if (c1 == ch x && c2 == ch y) = true then
        (advance >>= fun _ => advance >>= fun _ => (Pure.pure true : M Bool)) else Pure.pure false
    | _ => Pure.pure false) s = _
  rw [h.cps]
  show (if (ch x == ch x && ch y == ch y) = true then
    (advance >>= fun _ => advance >>= fun _ => (Pure.pure true : M Bool)) else Pure.pure false) s = _
  rw [if_pos (by simp)]
  show M.bind advance _ s = _
  unfold M.bind
  rw [advance_eq h.inv h.lt]
  show M.bind advance _ (s.setPos src (s.reader.index + 1)) = _
  unfold M.bind
  rw [advance_eq h.step.inv h.step.lt]; rfl

theorem eat2_ne {r : List Nat} {s : St} (h : UAt src N r s) (hne : ¬∃ r', r = ch x :: ch y :: r') :
    eat2 x y s = .ok false s := by
  show (match s.reader.cps with
    | c1 :: c2 :: _ => if (c1 == ch x && c2 == ch y) = true then
        (advance >>= fun _ => advance >>= fun _ => (Pure.pure true : M Bool)) else Pure.pure false
    | _ => Pure.pure false) s = _
  rw [h.cps]
  rcases r with _ | ⟨a, _ | ⟨b, t⟩⟩
  · rfl
  · rfl
  · show (if (a == ch x && b == ch y) = true then _ else (Pure.pure false : M Bool)) s = _
    rw [if_neg]; · rfl
    intro hc
    simp only [Bool.and_eq_true, beq_iff_eq] at hc
    exact hne ⟨t, by rw [hc.1, hc.2]⟩

theorem Wp.bind_eat2 {r : List Nat} {x y : Char} {g : Bool → M β} {s : St} {Q : β → St → Prop} (h : UAt src N r s)
    (ht : ∀ r', r = ch x :: ch y :: r' → UAt src N r' (s.setPos src (s.reader.index + 2)) →
      Wp (g true (s.setPos src (s.reader.index + 2))) Q)
    (hf : (¬∃ r', r = ch x :: ch y :: r') → Wp (g false s) Q) : Wp ((eat2 x y >>= g) s) Q := by
  show Wp (M.bind (eat2 x y) g s) Q
  unfold M.bind
  by_cases hx : ∃ r', r = ch x :: ch y :: r'
  · obtain ⟨r', rfl⟩ := hx
    rw [eat2_cons h]; exact ht r' rfl h.step2
  · rw [eat2_ne h hx]; exact hf hx

theorem eat3_cons {r : List Nat} {s : St} (h : UAt src N (ch x :: ch y :: ch z :: r) s) :
    eat3 x y z s = .ok true (s.setPos src (s.reader.index + 3)) := by
  show (match s.reader.cps with
    | c1 :: c2 :: c3 :: _ => if (c1 == ch x && c2 == ch y && c3 == ch z) = true then
        (advance >>= fun _ => advance >>= fun _ => advance >>= fun _ => (Pure.pure true : M Bool)) else Pure.pure false
    | _ => Pure.pure false) s = _
  rw [h.cps]
  show (if (ch x == ch x && ch y == ch y && ch z == ch z) = true then
    (advance >>= fun _ => advance >>= fun _ => advance >>= fun _ => (Pure.pure true : M Bool))
    else Pure.pure false) s = _
  rw [if_pos (by simp)]
  show M.bind advance _ s = _
  unfold M.bind
  rw [advance_eq h.inv h.lt]
  show M.bind advance _ (s.setPos src (s.reader.index + 1)) = _
  unfold M.bind
  rw [advance_eq h.step.inv h.step.lt]
  show M.bind advance _ ((s.setPos src (s.reader.index + 1)).setPos src
    ((s.setPos src (s.reader.index + 1)).reader.index + 1)) = _
  unfold M.bind
  rw [advance_eq h.step.step.inv h.step.step.lt]; rfl

theorem eat3_ne {r : List Nat} {s : St} (h : UAt src N r s) (hne : ¬∃ r', r = ch x :: ch y :: ch z :: r') :
    eat3 x y z s = .ok false s := by
  show (match s.reader.cps with
    | c1 :: c2 :: c3 :: _ => if (c1 == ch x && c2 == ch y && c3 == ch z) = true then
        (advance >>= fun _ => advance >>= fun _ => advance >>= fun _ => (Pure.pure true : M Bool)) else Pure.pure false
    | _ => Pure.pure false) s = _
  rw [h.cps]
  rcases r with _ | ⟨a, _ | ⟨b, _ | ⟨c', t⟩⟩⟩
  · rfl
  · rfl
  · rfl
  · show (if (a == ch x && b == ch y && c' == ch z) = true then _ else (Pure.pure false : M Bool)) s = _
    rw [if_neg]; · rfl
    intro hc
    simp only [Bool.and_eq_true, beq_iff_eq] at hc
    exact hne ⟨t, by rw [hc.1.1, hc.1.2, hc.2]⟩

theorem Wp.bind_eat3 {r : List Nat} {x y z : Char} {g : Bool → M β} {s : St} {Q : β → St → Prop} (h : UAt src N r s)
    (ht : ∀ r', r = ch x :: ch y :: ch z :: r' → UAt src N r' (s.setPos src (s.reader.index + 3)) →
      Wp (g true (s.setPos src (s.reader.index + 3))) Q)
    (hf : (¬∃ r', r = ch x :: ch y :: ch z :: r') → Wp (g false s) Q) : Wp ((eat3 x y z >>= g) s) Q := by
  show Wp (M.bind (eat3 x y z) g s) Q
  unfold M.bind
  by_cases hx : ∃ r', r = ch x :: ch y :: ch z :: r'
  · obtain ⟨r', rfl⟩ := hx
    rw [eat3_cons h]; exact ht r' rfl h.step3
  · rw [eat3_ne h hx]; exact hf hx

end DL.Rx
