import DL.Lemmas.RxBCompName2
import DL.Lemmas.RxCompAtomEsc

/-! # Annex B (no `u` flag), completeness: `\k<…>`, group specifiers, `AtomEscape[~U, N]` -/
namespace DL.Rx
open DL.RxSpec DL.Gen.Unicode

attribute [local irreducible] isScalar
variable {src : List Nat} {K : Bool × Nat}

theorem consumeKGroupName_wd (n : Nat) (m r1 : List Nat) (nm : List Nat) (s : St) (h : BAt src K (ch 'k' :: m) s)
    (hD : RxSpecB.GroupName m r1 nm) :
    Wc (consumeKGroupName n s) (fun b s1 => b = true ∧ BAt src K r1 s1 ∧ TrackC s s1 ⟨[], [nm]⟩) := by
  unfold consumeKGroupName
  rx7_auto
  rename_i s1 _ hat hstr hk
  refine ⟨rfl, by rx6_at, ?_, fun x => ?_⟩
  · show s1.groupNames = s.groupNames ++ []
    rw [hk.gn, List.append_nil]; rfl
  · show x ∈ (if s1.backreferenceNames.contains s1.lastStrValue then s1.backreferenceNames
        else s1.backreferenceNames ++ [s1.lastStrValue]) ↔ x ∈ s.backreferenceNames ∨ x ∈ [nm]
    have e : s1.backreferenceNames = s.backreferenceNames := hk.bn
    rw [hstr, e]
    split
    · rename_i hc
      have := List.contains_iff_mem.mp hc
      constructor
      · exact .inl
      · rintro (hx | hx)
        · exact hx
        · have : x = nm := by simpa using hx
          subst this; assumption
    · rw [List.mem_append]

theorem consumeKGroupName_wdn (n : Nat) (r : List Nat) (s : St) (h : BAt src K r s) (hn : r.head? ≠ some (ch 'k')) :
    Wc (consumeKGroupName n s) (fun b s1 => b = false ∧ s1 = s) := by
  unfold consumeKGroupName
  rx7_auto
  exact ⟨rfl, rfl⟩

theorem consumeGroupSpecifier_wd (n : Nat) (m r1 : List Nat) (nm : List Nat) (s : St) (h : BAt src K (ch '?' :: m) s)
    (hD : RxSpecB.GroupName m r1 nm) (hnew : ¬nm ∈ s.groupNames) :
    Wc (consumeGroupSpecifier n s) (fun b s1 => b = true ∧ BAt src K r1 s1 ∧ TrackC s s1 ⟨[some nm], []⟩) := by
  unfold consumeGroupSpecifier
  rx7_auto
  case neg =>
    rename_i s1 _ hat hstr hk hn
    apply hn
    have e : s1.groupNames = s.groupNames := hk.gn
    rw [hstr, e]
    have : s.groupNames.contains nm = false := by
      cases hc : s.groupNames.contains nm
      · rfl
      · exact absurd (List.contains_iff_mem.mp hc) hnew
    rw [this]; rfl
  rename_i s1 _ hat hstr hk hc
  refine ⟨rfl, by rx6_at, ?_, fun x => ?_⟩
  · show s1.groupNames ++ [s1.lastStrValue] = s.groupNames ++ [nm]
    rw [hk.gn, hstr]; rfl
  · show x ∈ s1.backreferenceNames ↔ x ∈ s.backreferenceNames ∨ x ∈ []
    have e : s1.backreferenceNames = s.backreferenceNames := hk.bn
    rw [e]
    exact ⟨.inl, fun h => h.elim id (fun h => nomatch h)⟩

theorem consumeGroupSpecifier_wdn (n : Nat) (r : List Nat) (s : St) (h : BAt src K r s) (hn : r.head? ≠ some (ch '?')) :
    Wc (consumeGroupSpecifier n s) (fun b s1 => b = false ∧ s1 = s) := by
  unfold consumeGroupSpecifier
  rx7_auto
  exact ⟨rfl, rfl⟩

theorem decimalEscape_exists {d : Nat} (m : List Nat) (hnz : NonZeroDigit d) : ∃ r' v', DecimalEscape (d :: m) r' v' := by
  obtain ⟨ds, r1, e, hds, hstop⟩ := exists_run DecimalDigit m
  refine ⟨r1, mvDec (d :: ds), d :: ds, by rw [e]; rfl, ⟨d, ds, rfl, hnz⟩, ?_, hstop, rfl⟩
  intro x hx
  rcases List.mem_cons.mp hx with rfl | hx
  · have h' : 0x31 ≤ x ∧ x ≤ 0x39 := hnz
    show 0x30 ≤ x ∧ x ≤ 0x39; omega
  · exact hds x hx

theorem cceFreeB_of {r : List Nat} (h : ¬∃ r', RxSpecB.CharacterClassEscape r r') : CceFreeB r := by
  have key : ∀ y : Nat, y ∈ [c 'd', c 'D', c 's', c 'S', c 'w', c 'W'] → r.head? ≠ some y := by
    intro y hy he
    cases r with
    | nil => cases he
    | cons x m =>
      have : x = y := by simpa using he
      subst this
      exact h ⟨m, x, rfl, hy⟩
  exact ⟨key _ (by simp), key _ (by simp), key _ (by simp), key _ (by simp), key _ (by simp), key _ (by simp)⟩

theorem consumeAtomEscape_wd (hN : K.2 < 2 ^ 62) (n : Nat) (r r1 : List Nat) (a : Attr) (s : St) (h : BAt src K r s)
    (hD : RxSpecB.AtomEscape K.1 K.2 r r1 a) :
    Wc (consumeAtomEscape n s) (fun b s1 => b = true ∧ BAt src K r1 s1 ∧ TrackC s s1 a) := by
  cases hD with
  | decimal _ _ v hd hv =>
    unfold consumeAtomEscape
    rx7_autos
    exact ⟨rfl, by rx6_at, TrackC.ofKeepN (by rx6_keep)⟩
  | characterClass _ _ hc =>
    have hnz : ∀ d, r.head? = some d → ¬NonZeroDigit d := by
      obtain ⟨x, rfl, hx⟩ := hc
      simp only [List.mem_cons, List.not_mem_nil, or_false] at hx
      rcases hx with rfl | rfl | rfl | rfl | rfl | rfl <;> exact head_not_nonZero (by decide)
    unfold consumeAtomEscape
    rx7_autos
    exact ⟨rfl, by rx6_at, TrackC.ofKeepN (by rx6_keep)⟩
  | character _ _ v hc hnd hnc =>
    have hfree := cceFreeB_of hnc
    by_cases hz : ∃ d m, r = d :: m ∧ NonZeroDigit d
    · obtain ⟨d, m, rfl, hnz⟩ := hz
      obtain ⟨r', v', hde⟩ := decimalEscape_exists m hnz
      have hv' : ¬v' ≤ K.2 := fun hle => hnd ⟨r', v', hde, hle⟩
      have hbr := fun s h => consumeBackreference_wdm (src := src) (K := K) hN n _ r' v' s h hde hv'
      unfold consumeAtomEscape
      rx7_autos
      exact ⟨rfl, by rx6_at, TrackC.ofKeepN (by rx6_keep)⟩
    · have hnz : ∀ d, r.head? = some d → ¬NonZeroDigit d := by
        intro d hd hnz
        cases r with
        | nil => cases hd
        | cons x m => cases hd; exact hz ⟨d, m, rfl, hnz⟩
      unfold consumeAtomEscape
      rx7_autos
      exact ⟨rfl, by rx6_at, TrackC.ofKeepN (by rx6_keep)⟩
  | named m _ nm hnf hg =>
    have hnz : ∀ d, (ch 'k' :: m).head? = some d → ¬NonZeroDigit d := head_not_nonZero (by decide)
    have hfree : CceFreeB (ch 'k' :: m) := ⟨head_ne_of_ne (by decide) _, head_ne_of_ne (by decide) _,
      head_ne_of_ne (by decide) _, head_ne_of_ne (by decide) _, head_ne_of_ne (by decide) _, head_ne_of_ne (by decide) _⟩
    unfold consumeAtomEscape
    rx7_autos
    have hk := ‹Keep (s.withInt 0) _›
    exact ⟨rfl, ‹BAt src K r1 _›, TrackC.pre (s1 := _) ⟨hk.gn, hk.bn⟩ ‹TrackC _ _ _›⟩

/-- `\c` not followed by a letter is no `AtomEscape` -/
theorem consumeAtomEscape_wdn (n : Nat) (m : List Nat) (s : St) (h : BAt src K (ch 'c' :: m) s)
    (hn : ∀ l, m.head? = some l → ¬ControlLetter l) :
    Wc (consumeAtomEscape n s) (fun b s1 => b = false ∧ BAt src K (ch 'c' :: m) s1 ∧ KeepN s s1) := by
  have hnz : ∀ d, (ch 'c' :: m).head? = some d → ¬NonZeroDigit d := head_not_nonZero (by decide)
  have hfree : CceFreeB (ch 'c' :: m) := ⟨head_ne_of_ne (by decide) _, head_ne_of_ne (by decide) _,
    head_ne_of_ne (by decide) _, head_ne_of_ne (by decide) _, head_ne_of_ne (by decide) _, head_ne_of_ne (by decide) _⟩
  have hce := fun s h => consumeCharacterEscape_wdn (src := src) (K := K) n m s h hn
  unfold consumeAtomEscape
  rx7_autos
  all_goals (
    have hk := ‹Keep (s.withInt 0) _›
    exact ⟨rfl, ‹BAt src K (ch 'c' :: m) _›, ⟨hk.gn, hk.bn⟩⟩)

end DL.Rx
