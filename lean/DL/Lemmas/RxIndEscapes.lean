import DL.Lemmas.RxIndLeaves3

/-! # History independence: escapes, character classes, quantifiers, the non-recursive atoms -/
namespace DL.Rx
attribute [local irreducible] isScalar
variable {c : Bool}
set_option linter.unusedSimpArgs false

theorem I.consumeKGroupName (W : RegSet) (n : Nat) : Ind c (ins .caps W) (consumeKGroupName n) (fun _ => ins .caps W) := by
  unfold DL.Rx.consumeKGroupName; rx2_auto

theorem I.consumeCharacterEscape (W : RegSet) (n : Nat) : Ind c W (consumeCharacterEscape n) (fun b => insIf b .int W) := by
  unfold DL.Rx.consumeCharacterEscape; rx2_auto

theorem I.consumeCharacterClassEscape (W : RegSet) (n : Nat) : Ind c W (consumeCharacterClassEscape n) (fun b => insIf b .int W) := by
  unfold DL.Rx.consumeCharacterClassEscape; rx2_auto

theorem I.consumeBackreference (W : RegSet) (n : Nat) : Ind c (ins .caps W) (consumeBackreference n) (fun _ => ins .caps W) := by
  unfold DL.Rx.consumeBackreference; rx2_auto

theorem I.consumeAtomEscape (W : RegSet) (n : Nat) : Ind c (ins .caps W) (consumeAtomEscape n) (fun _ => ins .caps W) := by
  unfold DL.Rx.consumeAtomEscape; rx2_auto

theorem I.consumeClassEscape (W : RegSet) (n : Nat) : Ind c W (consumeClassEscape n) (fun b => insIf b .int W) := by
  unfold DL.Rx.consumeClassEscape; rx2_auto

theorem I.consumeClassAtom (W : RegSet) (n : Nat) : Ind c W (consumeClassAtom n) (fun b => insIf b .int W) := by
  unfold DL.Rx.consumeClassAtom; rx2_auto

theorem I.consumeClassRanges (W : RegSet) : ∀ n, Ind c W (consumeClassRanges n) (fun _ => W)
  | 0 => by unfold DL.Rx.consumeClassRanges; rx2_auto
  | n + 1 => by
    have ih := I.consumeClassRanges W n
    unfold DL.Rx.consumeClassRanges; rx2_auto

theorem I.consumeCharacterClass (W : RegSet) (n : Nat) : Ind c W (consumeCharacterClass n) (fun _ => W) := by
  unfold DL.Rx.consumeCharacterClass; rx2_auto

theorem I.eatBracedQuantifier (W : RegSet) (n : Nat) (b : Bool) : Ind c W (eatBracedQuantifier n b) (fun _ => W) := by
  unfold DL.Rx.eatBracedQuantifier; rx2_auto

theorem I.consumeQuantifier (W : RegSet) (n : Nat) (b : Bool) : Ind c W (consumeQuantifier n b) (fun _ => W) := by
  unfold DL.Rx.consumeQuantifier; rx2_auto

theorem I.consumeOptionalQuantifier (W : RegSet) (n : Nat) : Ind c W (consumeOptionalQuantifier n) (fun _ => W) := by
  unfold DL.Rx.consumeOptionalQuantifier; rx2_auto

theorem I.consumeReverseSolidusAtomEscape (W : RegSet) (n : Nat) : Ind c (ins .caps W) (consumeReverseSolidusAtomEscape n) (fun _ => ins .caps W) := by
  unfold DL.Rx.consumeReverseSolidusAtomEscape; rx2_auto

theorem I.consumeReverseSolidusFollowedByC (W : RegSet) : Ind c W consumeReverseSolidusFollowedByC (fun _ => W) := by
  unfold DL.Rx.consumeReverseSolidusFollowedByC; rx2_auto

theorem I.consumeInvalidBracedQuantifier (W : RegSet) (n : Nat) : Ind c W (consumeInvalidBracedQuantifier n) (fun _ => W) := by
  unfold DL.Rx.consumeInvalidBracedQuantifier; rx2_auto

theorem I.consumePatternCharacter (W : RegSet) : Ind c W consumePatternCharacter (fun _ => W) := by
  unfold DL.Rx.consumePatternCharacter; rx2_auto

theorem I.consumeExtendedPatternCharacter (W : RegSet) : Ind c W consumeExtendedPatternCharacter (fun _ => W) := by
  unfold DL.Rx.consumeExtendedPatternCharacter; rx2_auto

theorem I.consumeGroupSpecifier (W : RegSet) (n : Nat) : Ind c (ins .caps W) (consumeGroupSpecifier n) (fun _ => ins .caps W) := by
  unfold DL.Rx.consumeGroupSpecifier; rx2_auto

end DL.Rx
