import DL.Lemmas.RxFuTac

/-! # Fuel adequacy: the `eat_*` leaves -/
namespace DL.Rx
attribute [local irreducible] isScalar
variable {E : Nat}

theorem F.isInRangeLoop (cp : Nat) (ranges : Array Nat) :
    ∀ (n l r i : Nat) (ne : Bool), r - l + 1 ≤ n → Fu E i ne (isInRangeLoop cp ranges n l r) (fun _ => i)
  | 0, _, _, _, _, hn => by exfalso; omega
  | n + 1, l, r, i, ne, hn => by
    have ih := F.isInRangeLoop cp ranges n
    unfold DL.Rx.isInRangeLoop; rx3_auto

theorem F.isInRange (i : Nat) {ne : Bool} (cp : Nat) (ranges : Array Nat) : Fu E i ne (isInRange cp ranges) (fun _ => i) :=
  F.isInRangeLoop cp ranges _ _ _ i ne (by omega)

theorem F.isLargeIdStart (i : Nat) {ne : Bool} (cp : Nat) : Fu E i ne (isLargeIdStart cp) (fun _ => i) := F.isInRange i cp _
theorem F.isLargeIdContinue (i : Nat) {ne : Bool} (cp : Nat) : Fu E i ne (isLargeIdContinue cp) (fun _ => i) := F.isInRange i cp _
attribute [local irreducible] isLargeIdStart isLargeIdContinue

theorem F.isIdStart (i : Nat) {ne : Bool} (cp : Nat) : Fu E i ne (isIdStart cp) (fun _ => i) := by
  unfold DL.Rx.isIdStart; rx3_auto

theorem F.isIdContinue (i : Nat) {ne : Bool} (cp : Nat) : Fu E i ne (isIdContinue cp) (fun _ => i) := by
  unfold DL.Rx.isIdContinue; rx3_auto

theorem F.isRegexpIdentifierStart (i : Nat) {ne : Bool} (cp : Nat) : Fu E i ne (isRegexpIdentifierStart cp) (fun _ => i) := by
  unfold DL.Rx.isRegexpIdentifierStart; rx3_auto

theorem F.isRegexpIdentifierPart (i : Nat) {ne : Bool} (cp : Nat) : Fu E i ne (isRegexpIdentifierPart cp) (fun _ => i) := by
  unfold DL.Rx.isRegexpIdentifierPart; rx3_auto

theorem fixedHexAux (start j : Nat) (h1 : j ≤ start) (h2 : start ≤ E) :
    ∀ (k i : Nat) (ne : Bool), j ≤ i → Fu E i ne (eatFixedHexDigitsLoop start k) (fun _ => j)
  | 0, i, ne, hj => by unfold DL.Rx.eatFixedHexDigitsLoop; rx3_auto
  | k + 1, i, ne, hj => by
    have ih := fixedHexAux start j h1 h2 k
    unfold DL.Rx.eatFixedHexDigitsLoop; rx3_auto

theorem F.eatFixedHexDigitsLoop (i : Nat) {ne : Bool} (start k : Nat) (h1 : i ≤ start) (h2 : start ≤ E) :
    Fu E i ne (eatFixedHexDigitsLoop start k) (fun _ => i) := fixedHexAux start i h1 h2 k i ne (Nat.le_refl _)

theorem F.eatFixedHexDigits (i : Nat) {ne : Bool} (k : Nat) : Fu E i ne (eatFixedHexDigits k) (fun _ => i) := by
  unfold DL.Rx.eatFixedHexDigits; rx3_auto

theorem F.eatOctalDigit (i : Nat) {ne : Bool} : Fu E i ne eatOctalDigit (fun _ => i) := by
  unfold DL.Rx.eatOctalDigit; rx3_auto

theorem F.eatLegacyOctalEscapeSequence (i : Nat) {ne : Bool} : Fu E i ne eatLegacyOctalEscapeSequence (fun _ => i) := by
  unfold DL.Rx.eatLegacyOctalEscapeSequence; rx3_auto

theorem F.eatHexDigitsLoop : ∀ (n i : Nat) (ne : Bool), E - i + 1 ≤ n → Fu E i ne (eatHexDigitsLoop n) (fun _ => i)
  | 0, i, _, hn => by exfalso; omega
  | n + 1, i, ne, hn => by
    have ih := F.eatHexDigitsLoop n
    unfold DL.Rx.eatHexDigitsLoop; rx3_auto

theorem F.eatHexDigits (i : Nat) {ne : Bool} (n : Nat) (hn : E - i + 1 ≤ n) : Fu E i ne (eatHexDigits n) (fun _ => i) := by
  unfold DL.Rx.eatHexDigits; rx3_auto

theorem F.eatDecimalDigitsLoop : ∀ (n i : Nat) (ne : Bool), E - i + 1 ≤ n → Fu E i ne (eatDecimalDigitsLoop n) (fun _ => i)
  | 0, i, _, hn => by exfalso; omega
  | n + 1, i, ne, hn => by
    have ih := F.eatDecimalDigitsLoop n
    unfold DL.Rx.eatDecimalDigitsLoop; rx3_auto

theorem F.eatDecimalDigits (i : Nat) {ne : Bool} (n : Nat) (hn : E - i + 1 ≤ n) : Fu E i ne (eatDecimalDigits n) (fun _ => i) := by
  unfold DL.Rx.eatDecimalDigits; rx3_auto

theorem F.eatHexEscapeSequence (i : Nat) {ne : Bool} : Fu E i ne eatHexEscapeSequence (fun _ => i) := by
  unfold DL.Rx.eatHexEscapeSequence; rx3_auto

theorem F.eatPropertyCharsLoop (p : Nat → Bool) (site : String) : ∀ (n i : Nat) (ne : Bool), E - i + 1 ≤ n → Fu E i ne (eatPropertyCharsLoop p site n) (fun _ => i)
  | 0, i, _, hn => by exfalso; omega
  | n + 1, i, ne, hn => by
    have ih := F.eatPropertyCharsLoop p site n
    unfold DL.Rx.eatPropertyCharsLoop; rx3_auto

theorem F.eatUnicodePropertyName (i : Nat) {ne : Bool} (n : Nat) (hn : E - i + 1 ≤ n) : Fu E i ne (eatUnicodePropertyName n) (fun _ => i) := by
  unfold DL.Rx.eatUnicodePropertyName; rx3_auto

theorem F.eatUnicodePropertyValue (i : Nat) {ne : Bool} (n : Nat) (hn : E - i + 1 ≤ n) : Fu E i ne (eatUnicodePropertyValue n) (fun _ => i) := by
  unfold DL.Rx.eatUnicodePropertyValue; rx3_auto

theorem F.eatLoneUnicodePropertyNameOrValue (i : Nat) {ne : Bool} (n : Nat) (hn : E - i + 1 ≤ n) : Fu E i ne (eatLoneUnicodePropertyNameOrValue n) (fun _ => i) := by
  unfold DL.Rx.eatLoneUnicodePropertyNameOrValue; rx3_auto

theorem F.eatUnicodePropertyValueExpression (i : Nat) {ne : Bool} (n : Nat) (hn : E - i + 1 ≤ n) : Fu E i ne (eatUnicodePropertyValueExpression n) (fun _ => i) := by
  unfold DL.Rx.eatUnicodePropertyValueExpression; rx3_auto

theorem F.eatDecimalEscapeLoop : ∀ (n i : Nat) (ne : Bool), E - i + 1 ≤ n → Fu E i ne (eatDecimalEscapeLoop n) (fun _ => i)
  | 0, i, _, hn => by exfalso; omega
  | n + 1, i, ne, hn => by
    have ih := F.eatDecimalEscapeLoop n
    unfold DL.Rx.eatDecimalEscapeLoop; rx3_auto

theorem F.eatDecimalEscape (i : Nat) {ne : Bool} (n : Nat) (hn : E - i + 1 ≤ n) : Fu E i ne (eatDecimalEscape n) (fun _ => i) := by
  unfold DL.Rx.eatDecimalEscape; rx3_auto

theorem F.isValidIdentityEscape (i : Nat) {ne : Bool} (cp : Nat) : Fu E i ne (isValidIdentityEscape cp) (fun _ => i) := by
  unfold DL.Rx.isValidIdentityEscape; rx3_auto

theorem F.eatIdentityEscape (i : Nat) {ne : Bool} : Fu E i ne eatIdentityEscape (fun _ => i) := by
  unfold DL.Rx.eatIdentityEscape; rx3_auto

end DL.Rx
