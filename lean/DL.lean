import DL.Model.Dir
import DL.Model.Pipe
import DL.Model.Sel
import DL.Gen.RuleTable
