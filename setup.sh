#!/bin/bash
# offline, from a fresh restore: build the harness against /repo and the Lean project (models, props, dlmodel)
set -e
cd "$(dirname "$0")"
export CARGO_NET_OFFLINE=true
(cd harness && cargo build --release --offline)
./build/target/release/translate lean/DL/Gen /repo
./build/target/release/translate2 lean/DL/Gen /repo
(cd lean && lake build DL dlmodel)
cargo build --release --offline --example dlint --manifest-path /repo/Cargo.toml --target-dir /verif/build/dlint
