#!/bin/bash
# offline, from a fresh restore: build the harness against /repo and the Lean project (models, props, dlmodel)
set -e
cd "$(dirname "$0")"
export CARGO_NET_OFFLINE=true
(cd harness && cargo build --release --offline)
./build/target/release/translate lean/DL/Gen /repo
./build/target/release/translate2 lean/DL/Gen /repo
(cd lean && lake build DL dlmodel)
# the property theorems too, so that the first run of a check does not have to compile its proofs (C10-C12: minutes)
mods=$(python3 -c "import props; print(' '.join(sorted({m for p in props.PROPS.values() for m in p.get('lean', [])})))")
(cd lean && lake build $mods) || echo "setup: some property modules do not build; the checks will report which"
cargo build --release --offline --example dlint --manifest-path /repo/Cargo.toml --target-dir /verif/build/dlint
