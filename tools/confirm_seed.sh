#!/bin/bash
# usage: confirm_seed.sh <Cxx> <round> [<wtroot>]  — confirm a sub-agent's seeded change in its scratch worktree, then keep it under /verif/seeded
# (demo passes on the clean tree; with the patch the library tests pass and the demo fails), finally remove the worktree.
p="$1"; r="$2"; root="${3:-/tmp/wt$r}"
wt="$root/$p"; out="$root/$p-out"; low=$(echo "$p" | tr 'A-Z' 'a-z')
cd "$wt" || exit 2
git checkout -- . ; git clean -fdq -e target
export CARGO_TARGET_DIR="$wt/target" CARGO_NET_OFFLINE=true
demo_rs="$out/${low}_demo.rs"
run_demo() {
  if [ -f "$demo_rs" ]; then mkdir -p tests; cp "$demo_rs" tests/; cargo test --offline --test ${low}_demo 2>&1 | tail -40 > "$out/demo_$1.log"; rc=${PIPESTATUS[0]}; grep -q "test result: ok" "$out/demo_$1.log" && rc=0 || rc=1; rm -rf tests/${low}_demo.rs; rmdir tests 2>/dev/null
  else (cd "$out" && WT="$wt" bash ./demo.sh "$wt") > "$out/demo_$1.log" 2>&1; rc=$?; fi
  echo $rc
}
clean_rc=$(run_demo clean)
git apply "$out/patch.diff" || { echo "patch does not apply"; exit 2; }
lib=$(cargo test --lib --offline 2>&1 | grep "test result" | tail -1); librc=1; echo "$lib" | grep -q "ok\. " && echo "$lib" | grep -q " 0 failed" && librc=0
patched_rc=$(run_demo patched)
git checkout -- . ; git clean -fdq -e target
line="$p: lib-tests-with-patch rc=$librc ($lib) demo-with-patch rc=$patched_rc demo-without rc=$clean_rc"
echo "$line"
if [ "$librc" = 0 ] && [ "$patched_rc" != 0 ] && [ "$clean_rc" = 0 ]; then
  d=/verif/seeded/$p-$r; mkdir -p $d/demo
  cp "$out/patch.diff" $d/; cp "$out"/*demo* "$out/README.md" $d/demo/ 2>/dev/null; rm -f $d/demo/demo_*.log
  python3 - "$out/meta.json" "$d/meta.json" "$line" <<'PY'
import json,sys
m=json.load(open(sys.argv[1])); m["confirmed_by_me"]=sys.argv[3]
m["confirm_procedure"]="scratch worktree of /repo HEAD: demo test passes on clean tree; patch applied: cargo test --lib --offline passes (363), demo test fails; patch reverted"
m["detected_by"]="(pending)"
json.dump(m,open(sys.argv[2],"w"),indent=1,ensure_ascii=False)
PY
  echo "KEPT $d"
else echo "NOT CONFIRMED $p"; fi
