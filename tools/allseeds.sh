#!/bin/bash
# usage: tools/allseeds.sh [pattern]  — every seeded change (matching the pattern) against the quick check of its property; one line each
cd /verif
for d in seeded/${1:-C}*/; do
  id=$(basename $d); p=${id%-*}
  if ! git -C /repo apply --check /verif/$d/patch.diff 2>/dev/null; then echo "$id DOES-NOT-APPLY"; continue; fi
  r=$(./seedtest.sh /verif/$d/patch.diff $p 2>&1 | grep -v KNOWN)
  if echo "$r" | grep -q "VIOLATION.*no-failing-input-found"; then echo "$id detected:no-failing-input-found"
  elif echo "$r" | grep -q "VIOLATION"; then echo "$id detected"
  else echo "$id MISSED"; fi
done
