// usage: node tools/cf_exec_record.js <programs.jsonl from `drive cfexport`> > corpus/cf_exec.jsonl
// Runs every instrumented program RUNS times under random oracles for its free names (booleans, undefined, callable opaque
// values that may throw), with a step budget, and records which marked statements were executed.
const fs = require('fs');
const vm = require('vm');
const RUNS = 40, BUDGET = 400;
function rng(seed) { let a = seed >>> 0; return () => { a |= 0; a = a + 0x6D2B79F5 | 0; let t = Math.imul(a ^ a >>> 15, 1 | a); t = t + Math.imul(t ^ t >>> 7, 61 | t) ^ t; return ((t ^ t >>> 14) >>> 0) / 4294967296; }; }
const ABORT = { abort: true };
const KEEP = new Set(['undefined', 'Infinity', 'NaN', '__m', 'Symbol', 'Object']);
for (const line of fs.readFileSync(process.argv[2], 'utf8').split('\n')) {
  if (!line.trim()) continue;
  const { src, inst, marks } = JSON.parse(line);
  let fn;
  // every function declared at the top level is called once after the program itself (the reference semantics treats every
  // function body as an entry point)
  const decls = [...src.matchAll(/^(?:async )?function\*? ?([A-Za-z_$][\w$]*)\(/gm)].map((m) => m[1]);
  const trailer = decls.map((d) => `;try{const __r=${d}();if(__r&&typeof __r.next==='function'){__r.next();__r.next();}}catch(__e){}`).join('');
  try { fn = new Function('__m', '__o', 'with (__o) {\n' + inst + '\n' + trailer + '\n}'); } catch (e) { continue; }
  const executed = new Set();
  let aborted = 0, threw = 0;
  for (let run = 0; run < RUNS; run++) {
    const r = rng(run * 7919 + src.length);
    let steps = 0, dead = false;
    // once the step budget is used up the run is over: the abort unwinds through the program's own `finally` / `catch`
    // blocks, and nothing that runs from then on is an execution of the program
    const m = (p) => { if (dead) throw ABORT; executed.add(p); if (++steps > BUDGET) { dead = true; throw ABORT; } };
    const opaque = () => {
      const f = function () {};
      return new Proxy(f, {
        get(t, k) { if (k === Symbol.toPrimitive) return () => (r() < 0.5 ? 1 : 0); if (k === Symbol.iterator) return function* () { while (r() < 0.5) yield value(); }; if (k === 'then') return undefined; if (r() < 0.08) throw new Error('get'); return value(); },
        set() { if (r() < 0.05) throw new Error('set'); return true; },
        // (an object named in the program's own `with` does not shadow the global constants swc folds: `with (o) { for (; !undefined;) … }`
        // would otherwise leave a loop the analyzer — through swc's `is_global_ref_to` — takes for endless; stated in DESIGN §5 C10)
        has(t, k) { return !KEEP.has(k) && r() < 0.5; },
        apply() { if (dead || ++steps > BUDGET) { dead = true; throw ABORT; } if (r() < 0.2) throw new Error('call'); return value(); },
        construct() { if (r() < 0.2) throw new Error('new'); return opaque(); },
        ownKeys() { return r() < 0.5 ? ['a', 'b'] : []; },
        getOwnPropertyDescriptor() { return { value: 1, enumerable: true, configurable: true, writable: true }; },
        deleteProperty() { return true; },
      });
    };
    const value = () => { const x = r(); return x < 0.3 ? true : x < 0.6 ? false : x < 0.7 ? undefined : x < 0.75 ? 0 : opaque(); };
    // the value of a free name: the reference semantics (like the analyzer, like ESLint) takes the evaluation of a bare
    // identifier — and what a statement does with its value: iterating it in for-of, `with`, destructuring it — as unable to
    // throw.  The recorded executions stay inside that assumption: a free name is the empty string (falsy, iterable,
    // convertible to an object) or an opaque object (truthy, iterable, callable, constructible), never null / undefined /
    // a number.  What calls and property reads return is arbitrary.
    const name = () => (r() < 0.45 ? '' : opaque());
    const scope = new Proxy({}, {
      has(t, k) { return typeof k === 'string' && !KEEP.has(k); },
      // names the generators use in call position are callable (returning anything); the others are any value
      get(t, k) { if (k === Symbol.unscopables) return undefined; if (/^(f|g|h|h1|c|foo|bar|tag|use|call\d*|f9|foo\d+|X|C)$/.test(k)) return opaque(); return name(); },
      set() { return true; },
    });
    // (a loop without a marked statement in it never reaches the step budget: a wall-clock limit ends it)
    try { vm.runInNewContext('fn.call(self, m, scope)', { fn, self: r() < 0.5 ? opaque() : undefined, m, scope }, { timeout: 40 }); } catch (e) { if (e === ABORT) aborted++; else threw++; }
  }
  console.log(JSON.stringify({ src, executed: [...executed].sort((a, b) => a - b), marks: marks.length, aborted, threw }));
}
