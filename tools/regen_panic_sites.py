#!/usr/bin/env python3
"""Rewrites the reviewed inventory in lean/DL/Props/C01Sites.lean from lean/DL/Gen/PanicSites.lean — to be run only after
the new / moved panic sites have been looked at (the theorem panic_sites_as_reviewed is a tripwire, see the file's header)."""
import re
gen = open('/verif/lean/DL/Gen/PanicSites.lean').read()
body = gen[gen.index(':= [') + 4:gen.rindex(']')].strip('\n')
rows = re.findall(r'\("([^"]*)", "([^"]*)", "([^"]*)", (\d+)\)', body)
p = '/verif/lean/DL/Props/C01Sites.lean'
s = open(p).read()
a = s.index('def reviewedPanicSites'); b = s.index('theorem panic_sites_as_reviewed')
s = s[:a] + 'def reviewedPanicSites : List (String × String × String × Nat) := [\n' + body + '\n]\n\n' + s[b:]
n_rx = sum(int(r[3]) for r in rows if r[0] in ('src/js_regex/validator.rs', 'src/js_regex/reader.rs'))
s = re.sub(r'\(·\.2\.2\.2\)\)\.sum = \d+', f'(·.2.2.2)).sum = {n_rx}', s)
s = re.sub(r'aggregated by \(file, enclosing function, kind\): \d+ sites in \d+ rows today', f'aggregated by (file, enclosing function, kind): {sum(int(r[3]) for r in rows)} sites in {len(rows)} rows today', s)
open(p, 'w').write(s)
print(sum(int(r[3]) for r in rows), 'sites in', len(rows), 'rows')
