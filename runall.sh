#!/bin/bash
# run every claimed check (quick by default) on the current tree; evidence is rewritten by each
cd /verif
tier=${1:-quick}
ids=$(python3 -c "import json;print(' '.join(c['property_id'] for c in json.load(open('MANIFEST.json'))['checks']))")
rc=0
for p in $ids; do ./check $p --tier $tier | tail -1 || rc=1; done
python3-vt - <<'PY'
import json,jsonschema,glob
sch=json.load(open('/root/.vp/EVIDENCE.schema.json'))
for f in sorted(glob.glob('/verif/evidence/C*.json')):
    e=json.load(open(f)); jsonschema.validate(e,sch)
    c=e['coverage']
    if c['obligations']!=c['discharged'] or e.get('violations'): print('NOT CLEAN', f, c['obligations'], c['discharged'], e.get('violations'))
print('evidence validated')
PY
exit $rc
